package main

import (
	"fmt"
	"go/types"
	"strings"

	"golang.org/x/tools/go/ssa"
)

func (fr *Frame) argTerm(v *Val) string {
	if v.T == "" && v.A != nil {
		return fr.g.ptrTerm(v.A)
	}
	return v.T
}

// call translates a call (x == nil for deferred calls at RunDefers).
func (fr *Frame) call(x *ssa.Call, c *ssa.CallCommon, h Heap) Heap {
	g := fr.g
	var resT types.Type
	var resKey ssa.Value
	name := "defer"
	pos := c.Pos()
	if x != nil {
		resT = x.Type()
		resKey = x
		name = x.Name()
	} else {
		resT = c.Signature().Results()
	}
	setRes := func(v *Val) {
		if resKey != nil {
			fr.vals[resKey] = v
		}
	}
	// builtins
	if b, ok := c.Value.(*ssa.Builtin); ok {
		return fr.builtin(b, c, resT, setRes, h, name)
	}
	var args []*Val
	if c.IsInvoke() {
		args = append(args, fr.val(c.Value))
	}
	for _, a := range c.Args {
		args = append(args, fr.val(a))
	}
	callee := c.StaticCallee()
	var key string
	var fc *FuncContract
	if callee != nil {
		key = callee.String()
		if callee.Origin() != nil {
			key = callee.Origin().String()
		}
		// intrinsics first
		if nh, ok := fr.intrinsic(key, callee, c, args, resT, setRes, h, name); ok {
			return nh
		}
		if kind := rangeCallKind(key); kind != "" {
			if nh, ok := fr.rangeCall(kind, callee, x, c, args, h); ok {
				setRes(&Val{})
				return nh
			}
		}
		fc = g.P.contractFor(callee)
	} else if c.IsInvoke() {
		key = "iface " + types.TypeString(c.Value.Type(), nil) + "." + c.Method.Name()
		fc = g.P.ifaceContract(c.Value.Type(), c.Method.Name())
	} else {
		key = "funcvalue " + types.TypeString(c.Value.Type(), nil)
		fc = g.P.functypeContract(c.Value.Type())
	}
	// caller-specific assertions about the arguments of this call ("at call f assert ...")
	if fr.top && fr.fc != nil && fr.fc.AtCall != nil {
		short := ""
		if callee != nil {
			short = callee.Name()
		} else if c.IsInvoke() {
			short = c.Method.Name()
		}
		if cls := fr.fc.AtCall[short]; len(cls) > 0 {
			if len(fr.fc.Protocols) > 0 {
				// assertions at call sites must be stable under the other threads' actions
				h = fr.envStep(h)
			}
			env := fr.newSpecEnv(h, fr.entry)
			fr.bindParams(env)
			// the callee's parameter names shadow the caller's
			var sig *types.Signature
			if callee != nil {
				sig = callee.Signature
			} else {
				sig = c.Signature()
			}
			cpkg := env.pkg
			callerNames := map[string]bool{}
			for k := range env.vars {
				callerNames[k] = true
			}
			env.bindSig(sig, callee, c, args)
			env.pkg = cpkg
			calleeNames := map[string]bool{}
			for k, v := range env.vars {
				if !callerNames[k] {
					calleeNames[k] = true
				} else if cp := fr.paramVal(k); cp == nil || cp != v.V {
					calleeNames[k] = true // rebound by the callee's signature
				}
			}
			blk := fr.curBlock
			callerParams := map[string]*SVal{}
			for _, prm := range fr.fn.Params {
				if pv := fr.vals[prm]; pv != nil {
					callerParams[prm.Name()] = &SVal{V: pv, T: prm.Type()}
				}
			}
			env.locals = func(name string) *SVal {
				// caller_<x>: the caller's own x even when the callee has a parameter of that name
				if strings.HasPrefix(name, "caller_") {
					cn := strings.TrimPrefix(name, "caller_")
					var v *SVal
					if x != nil {
						v = fr.localBefore(cn, x, h)
					} else {
						v = fr.localAt(cn, blk, h)
					}
					if v == nil {
						v = callerParams[cn]
					}
					return v
				}
				// the callee's parameter names shadow everything; the caller's own (possibly reassigned)
				// parameters and locals are read at their current value
				if calleeNames[name] {
					return nil
				}
				if x != nil {
					return fr.localBefore(name, x, h)
				}
				return fr.localAt(name, blk, h)
			}
			for i, cl := range cls {
				env.where = fmt.Sprintf("%s:%d", cl.File, cl.Line)
				f := env.boolTerm(cl.Expr)
				label := cl.Label
				if label == "" {
					label = fmt.Sprintf("assert%d", i+1)
				}
				fr.oblig("callsite", "", "at."+short+"."+label, f, cl.Src, c.Pos())
			}
		}
	}
	// a deferred closure of the form `if r := recover(); r != nil { ... }` does nothing on the normal
	// path (recover() returns nil there); its contract describes the panic path only
	if x == nil && callee != nil && isRecoverOnlyClosure(callee) {
		return h
	}
	// deferred closures and explicitly inlined callees: translate the body here
	if callee != nil && len(callee.Blocks) > 0 && fr.depth < 4 {
		inline := fc != nil && fc.Inline
		if x == nil && callee.Parent() != nil && fc == nil {
			inline = true // deferred closure without contract
		}
		if fc == nil && g.P.autoInline(callee) {
			inline = true
		}
		if inline {
			return fr.inlineCall(callee, fc, c, args, resT, setRes, h, name)
		}
	}
	if fc != nil {
		fc.Used = true
		return fr.applyContract(fc, callee, c, args, resT, setRes, h, name, key)
	}
	// unknown callee: havoc everything it could touch
	g.havocs[key]++
	res := fr.symbolic("res_"+name, resT)
	fr.assumeTypeFacts(res, resT, h)
	setRes(res)
	_ = pos
	return fr.havocAll(h)
}

func (fr *Frame) assumeTypeFacts(v *Val, t types.Type, h Heap) {
	if tup, ok := t.(*types.Tuple); ok {
		for i := 0; i < tup.Len(); i++ {
			fr.assumeTypeFacts(v.Tup[i], tup.At(i).Type(), h)
		}
		return
	}
	if v.T == "" {
		return
	}
	if f := fr.typeFacts(v.T, t, h); f != "true" {
		fr.assume(f, "type facts")
	}
}

// callModNames: which heap arrays a call instruction may modify (for loop havoc).
func (fr *Frame) callModNames(ci ssa.CallInstruction) ([]string, bool) {
	g := fr.g
	c := ci.Common()
	if b, ok := c.Value.(*ssa.Builtin); ok {
		switch b.Name() {
		case "append", "copy":
			if len(c.Args) > 0 {
				if sl, ok := c.Args[0].Type().Underlying().(*types.Slice); ok {
					n, s := g.elemArrName(sl.Elem())
					g.heapSort[n] = s
					return []string{n}, false
				}
			}
			return nil, false
		case "delete":
			return fr.mapHeapNames(c.Args[0].Type()), false
		case "close":
			cn, _ := g.closedName()
			return []string{cn}, false
		}
		return nil, false
	}
	callee := c.StaticCallee()
	var fc *FuncContract
	if callee != nil {
		key := callee.String()
		if names, ok := intrinsicMods(g, key, c); ok {
			return names, false
		}
		if rangeCallKind(calleeKey(callee)) != "" && len(c.Args) >= 2 {
			if fn, _ := closureOf(c.Args[len(c.Args)-1]); fn != nil && len(fn.Blocks) > 0 {
				return fr.bodyModNames(fn, 1)
			}
		}
		fc = g.P.contractFor(callee)
		if fc == nil && g.P.autoInline(callee) && len(callee.Blocks) > 0 {
			return fr.bodyModNames(callee, 0)
		}
		if fc != nil && fc.Inline && len(callee.Blocks) > 0 {
			return fr.bodyModNames(callee, 0)
		}
	} else if c.IsInvoke() {
		fc = g.P.ifaceContract(c.Value.Type(), c.Method.Name())
	} else {
		fc = g.P.functypeContract(c.Value.Type())
	}
	if fc == nil {
		return nil, true
	}
	if fc.ModAll {
		return nil, true
	}
	var names []string
	for _, m := range fc.Modifies {
		ns, all := fr.modNamesOf(m, callee, c)
		if all {
			return nil, true
		}
		names = append(names, ns...)
	}
	return names, false
}

func (fr *Frame) bodyModNames(fn *ssa.Function, depth int) ([]string, bool) {
	if depth > 3 {
		return nil, true
	}
	sub := newFrame(fr.g, fn, nil, "", depth)
	var names []string
	for _, b := range fn.Blocks {
		for _, in := range b.Instrs {
			switch x := in.(type) {
			case *ssa.Store:
				ns, _ := sub.staticTargets(x.Addr)
				names = append(names, ns...)
			case *ssa.MapUpdate:
				names = append(names, sub.mapHeapNames(x.Map.Type())...)
			case *ssa.Alloc, *ssa.MakeSlice, *ssa.MakeMap:
				// fresh objects: initialisation writes
				if a, ok := x.(*ssa.Alloc); ok {
					names = append(names, sub.namesForPointee(a)...)
				}
				if ms, ok := x.(*ssa.MakeSlice); ok {
					names = append(names, sub.namesForPointee(ms)...)
				}
			case ssa.CallInstruction:
				if _, isGo := in.(*ssa.Go); isGo {
					continue
				}
				ns, all := sub.callModNames(x)
				if all {
					return nil, true
				}
				names = append(names, ns...)
			}
		}
	}
	return names, false
}

// modNamesOf maps a modifies expression to heap array names, syntactically (types only).
func (fr *Frame) modNamesOf(m *SX, callee *ssa.Function, c *ssa.CallCommon) ([]string, bool) {
	g := fr.g
	var sig *types.Signature
	if callee != nil {
		sig = callee.Signature
	} else {
		sig = c.Signature()
	}
	// type-level evaluation of the expression
	te := &typeEnv{g: g, sig: sig, recvT: nil}
	if c.IsInvoke() {
		te.recvT = c.Value.Type()
	}
	return te.modNames(m)
}

// ---------- builtins ----------

func (fr *Frame) builtin(b *ssa.Builtin, c *ssa.CallCommon, resT types.Type, setRes func(*Val), h Heap, name string) Heap {
	g := fr.g
	arg := func(i int) *Val { return fr.val(c.Args[i]) }
	switch b.Name() {
	case "len":
		t := c.Args[0].Type()
		switch u := t.Underlying().(type) {
		case *types.Slice:
			setRes(&Val{T: fmt.Sprintf("(s_len %s)", arg(0).T)})
		case *types.Basic:
			setRes(&Val{T: fmt.Sprintf("(slen %s)", arg(0).T)})
		case *types.Map:
			_, _, cn := g.mapArrNames(u)
			fr.mapLenFacts(u, arg(0).T, h)
			setRes(&Val{T: g.define(fr.prefix+"maplen", g.IS(), fmt.Sprintf("(ite (= %s 0) %s (select %s %s))", arg(0).T, g.ilit(0), g.heapArr(h, cn, g.heapSort[cn]), arg(0).T))})
		case *types.Array:
			setRes(&Val{T: g.ilit(u.Len())})
		case *types.Pointer:
			setRes(&Val{T: g.ilit(u.Elem().Underlying().(*types.Array).Len())})
		case *types.Chan:
			r := fr.symbolic("chanlen", resT)
			fr.assume(g.ile(g.ilit(0), r.T), "len(chan) >= 0")
			setRes(r)
		default:
			panic(genErr("len of " + t.String()))
		}
		return h
	case "cap":
		switch u := c.Args[0].Type().Underlying().(type) {
		case *types.Slice:
			setRes(&Val{T: fmt.Sprintf("(s_cap %s)", arg(0).T)})
		case *types.Array:
			setRes(&Val{T: g.ilit(u.Len())})
		default:
			r := fr.symbolic("cap", resT)
			setRes(r)
		}
		return h
	case "append":
		return fr.appendOp(c, setRes, h, name)
	case "copy":
		return fr.copyOp(c, setRes, h, name)
	case "delete":
		mt := c.Args[0].Type().Underlying().(*types.Map)
		if fr.curInstr != nil {
			fr.guardedUse(c.Args[0], h, true, "map delete", fr.curInstr)
		}
		return fr.mapDelete(h, mt, arg(0).T, arg(1).T)
	case "recover":
		// on the normal path recover() returns nil; in the recover block anything
		// nil on the normal path of a function whose deferred closures are inlined at rundefers; any
		// value when the closure is verified as a unit of its own (it runs because of a panic) or in
		// the Recover block
		if fr.top || (fr.fn.Recover != nil && fr.curBlock == fr.fn.Recover) {
			setRes(fr.symbolic("recovered", resT))
		} else {
			setRes(&Val{T: "(mk_iface 0 0)"})
		}
		return h
	case "print", "println":
		return h
	case "close":
		ch := arg(0).T
		fr.oblig("nil", "safety", "", fmt.Sprintf("(not (= %s 0))", ch), "close of nil channel", c.Pos())
		cn, cs := g.closedName()
		cur := g.heapArr(h, cn, cs)
		nh := h.clone()
		nh[cn] = g.define(cn, cs, fmt.Sprintf("(store %s %s %s)", cur, ch, g.iadd(fmt.Sprintf("(select %s %s)", cur, ch), g.ilit(1))))
		return nh
	case "min", "max":
		t := c.Args[0].Type()
		_, signed, ok := intInfo(t)
		if !ok {
			break
		}
		cur := arg(0).T
		for i := 1; i < len(c.Args); i++ {
			op := "bvult"
			if signed {
				op = "bvslt"
			}
			if g.intMode {
				op = "<"
			}
			if b.Name() == "min" {
				cur = fmt.Sprintf("(ite (%s %s %s) %s %s)", op, arg(i).T, cur, arg(i).T, cur)
			} else {
				cur = fmt.Sprintf("(ite (%s %s %s) %s %s)", op, cur, arg(i).T, arg(i).T, cur)
			}
		}
		setRes(&Val{T: g.define(fr.prefix+name, g.sortOf(t), cur)})
		return h
	case "ssa:wrapnilchk":
		a := arg(0)
		setRes(a)
		return h
	}
	panic(genErr("builtin " + b.Name() + " unsupported"))
}

func (fr *Frame) appendOp(c *ssa.CallCommon, setRes func(*Val), h Heap, name string) Heap {
	g := fr.g
	st := c.Args[0].Type().Underlying().(*types.Slice)
	el := st.Elem()
	es := g.sortOf(el)
	s := fr.val(c.Args[0]).T
	en, esrt := g.elemArrName(el)
	earr := g.heapArr(h, en, esrt)
	var tlen string
	var telem func(j string) string
	if isString(c.Args[1].Type()) {
		t := fr.val(c.Args[1]).T
		tlen = fmt.Sprintf("(slen %s)", t)
		telem = func(j string) string { return fmt.Sprintf("(sat %s %s)", t, j) }
	} else {
		t := fr.val(c.Args[1]).T
		tlen = fmt.Sprintf("(s_len %s)", t)
		telem = func(j string) string {
			return fmt.Sprintf("(select (select %s (s_arr %s)) %s)", earr, t, g.iadd("(s_off "+t+")", j))
		}
	}
	// append(s, x1, ..., xk) with a small constant k: plain array stores, no quantified axiom for
	// the in-place case and a single shift axiom for the reallocation case
	if k, ok := varargsLen(c.Args[1]); ok && k >= 1 && k <= 4 {
		return fr.appendFixed(c, setRes, h, name, s, el, k, telem)
	}
	newLen := g.define(fr.prefix+"applen", g.IS(), g.iadd("(s_len "+s+")", tlen))
	fits := g.define(fr.prefix+"appfits", "Bool", g.ile(newLen, "(s_cap "+s+")"))
	// a slice never holds 2^48 elements (memory): modelling bound, assumed (listed in the evidence)
	fr.assume(g.ile(newLen, g.maxLen()), "append result length below 2^48 (memory bound)")
	r, nh := fr.freshRef(h, "append_"+name)
	newCap := g.fresh(fr.prefix+"appcap", g.IS())
	g.defs = append(g.defs, implies(g.ile(newLen, g.maxLen()), and(g.ile(newLen, newCap), g.ile(newCap, g.maxLen()))))
	resArr := ite(fits, fmt.Sprintf("(s_arr %s)", s), r)
	resOff := ite(fits, fmt.Sprintf("(s_off %s)", s), g.ilit(0))
	resCap := ite(fits, fmt.Sprintf("(s_cap %s)", s), newCap)
	res := g.define(fr.prefix+name, "Slice", fmt.Sprintf("(mk_slice %s %s %s %s)", resArr, resOff, newLen, resCap))
	oldA := fmt.Sprintf("(select %s (s_arr %s))", earr, s)
	na := g.fresh(fr.prefix+"apparr", "(Array "+g.IS()+" "+es+")")
	start := g.define(fr.prefix+"appstart", g.IS(), g.iadd("(s_off "+res+")", "(s_len "+s+")"))
	// i in [start, start+tlen): appended element; otherwise old content (in place) or the copied prefix (fresh array)
	inApp := and(g.ile(start, "i"), g.ilt("i", g.iadd(start, tlen)))
	body := fmt.Sprintf("(ite %s %s (ite %s (select %s i) (select %s %s)))", inApp, telem(g.isub("i", start)), fits, oldA, oldA, g.iadd("(s_off "+s+")", "i"))
	g.defs = append(g.defs, fmt.Sprintf("(forall ((i %s)) (! (= (select %s i) %s) :pattern ((select %s i))))", g.IS(), na, body, na))
	// ground witnesses: the first and the last appended element (instances of the axiom above that
	// give the instantiation pass the index terms of the new elements)
	last := g.isub(g.iadd(start, tlen), g.ilit(1))
	g.defs = append(g.defs, fmt.Sprintf("(=> %s (and (= (select %s %s) %s) (= (select %s %s) %s)))", g.ilt(g.ilit(0), tlen),
		na, start, telem(g.ilit(0)), na, last, telem(g.isub(tlen, g.ilit(1)))))
	nh[en] = g.define(en, esrt, fmt.Sprintf("(store %s %s %s)", earr, resArr, na))
	setRes(&Val{T: res})
	return nh
}

// varargsLen: is v the slice over a compiler-generated varargs array of constant length?
func varargsLen(v ssa.Value) (int64, bool) {
	sl, ok := v.(*ssa.Slice)
	if !ok || sl.Low != nil || sl.High != nil || sl.Max != nil {
		return 0, false
	}
	al, ok := sl.X.(*ssa.Alloc)
	if !ok || al.Comment != "varargs" {
		return 0, false
	}
	at, ok := al.Type().Underlying().(*types.Pointer).Elem().Underlying().(*types.Array)
	if !ok {
		return 0, false
	}
	return at.Len(), true
}

func (fr *Frame) appendFixed(c *ssa.CallCommon, setRes func(*Val), h Heap, name, s string, el types.Type, k int64, telem func(string) string) Heap {
	g := fr.g
	es := g.sortOf(el)
	en, esrt := g.elemArrName(el)
	earr := g.heapArr(h, en, esrt)
	newLen := g.define(fr.prefix+"applen", g.IS(), g.iadd("(s_len "+s+")", g.ilit(k)))
	fits := g.define(fr.prefix+"appfits", "Bool", g.ile(newLen, "(s_cap "+s+")"))
	// a slice never holds 2^48 elements (memory): modelling bound, assumed (listed in the evidence)
	fr.assume(g.ile(newLen, g.maxLen()), "append result length below 2^48 (memory bound)")
	r, nh := fr.freshRef(h, "append_"+name)
	newCap := g.fresh(fr.prefix+"appcap", g.IS())
	g.defs = append(g.defs, implies(g.ile(newLen, g.maxLen()), and(g.ile(newLen, newCap), g.ile(newCap, g.maxLen()))))
	resArr := g.define(fr.prefix+"apparrref", "Int", ite(fits, fmt.Sprintf("(s_arr %s)", s), r))
	resOff := ite(fits, fmt.Sprintf("(s_off %s)", s), g.ilit(0))
	resCap := ite(fits, fmt.Sprintf("(s_cap %s)", s), newCap)
	res := g.define(fr.prefix+name, "Slice", fmt.Sprintf("(mk_slice %s %s %s %s)", resArr, resOff, newLen, resCap))
	oldA := g.define(fr.prefix+"appold", "(Array "+g.IS()+" "+es+")", fmt.Sprintf("(select %s (s_arr %s))", earr, s))
	// reallocation: the prefix is copied to offset 0 of a fresh array
	shifted := g.fresh(fr.prefix+"appshift", "(Array "+g.IS()+" "+es+")")
	g.defs = append(g.defs, fmt.Sprintf("(forall ((i %s)) (! (=> %s (= (select %s i) (select %s %s))) :pattern ((select %s i))))", g.IS(),
		g.inRange("i", "(s_len "+s+")"), shifted, oldA, g.iadd("(s_off "+s+")", "i"), shifted))
	inplace := oldA
	fresh := shifted
	for j := int64(0); j < k; j++ {
		ev := g.define(fr.prefix+"appelem", es, telem(g.ilit(j)))
		inplace = fmt.Sprintf("(store %s %s %s)", inplace, g.iadd(g.iadd("(s_off "+s+")", "(s_len "+s+")"), g.ilit(j)), ev)
		fresh = fmt.Sprintf("(store %s %s %s)", fresh, g.iadd("(s_len "+s+")", g.ilit(j)), ev)
	}
	na := g.define(fr.prefix+"apparr", "(Array "+g.IS()+" "+es+")", ite(fits, inplace, fresh))
	nh[en] = g.define(en, esrt, fmt.Sprintf("(store %s %s %s)", earr, resArr, na))
	setRes(&Val{T: res})
	return nh
}

func (fr *Frame) copyOp(c *ssa.CallCommon, setRes func(*Val), h Heap, name string) Heap {
	g := fr.g
	dt := c.Args[0].Type().Underlying().(*types.Slice)
	el := dt.Elem()
	es := g.sortOf(el)
	d := fr.val(c.Args[0]).T
	en, esrt := g.elemArrName(el)
	earr := g.heapArr(h, en, esrt)
	var slen string
	var selem func(j string) string
	if isString(c.Args[1].Type()) {
		t := fr.val(c.Args[1]).T
		slen = fmt.Sprintf("(slen %s)", t)
		selem = func(j string) string { return fmt.Sprintf("(sat %s %s)", t, j) }
	} else {
		t := fr.val(c.Args[1]).T
		slen = fmt.Sprintf("(s_len %s)", t)
		selem = func(j string) string {
			return fmt.Sprintf("(select (select %s (s_arr %s)) %s)", earr, t, g.iadd("(s_off "+t+")", j))
		}
	}
	n := g.define(fr.prefix+"copyn", g.IS(), fmt.Sprintf("(ite %s (s_len %s) %s)", g.ilt("(s_len "+d+")", slen), d, slen))
	oldA := fmt.Sprintf("(select %s (s_arr %s))", earr, d)
	na := g.fresh(fr.prefix+"copyarr", "(Array "+g.IS()+" "+es+")")
	inDst := and(g.ile("(s_off "+d+")", "i"), g.ilt("i", g.iadd("(s_off "+d+")", n)))
	body := fmt.Sprintf("(ite %s %s (select %s i))", inDst, selem(g.isub("i", "(s_off "+d+")")), oldA)
	g.defs = append(g.defs, fmt.Sprintf("(forall ((i %s)) (! (= (select %s i) %s) :pattern ((select %s i))))", g.IS(), na, body, na))
	nh := h.clone()
	nh[en] = g.define(en, esrt, fmt.Sprintf("(ite (= (s_arr %s) 0) %s (store %s (s_arr %s) %s))", d, earr, earr, d, na))
	setRes(&Val{T: n})
	return nh
}

// ---------- intrinsics ----------

func intrinsicMods(g *Gen, key string, c *ssa.CallCommon) ([]string, bool) {
	if strings.HasPrefix(key, "sync/atomic.") || strings.HasPrefix(key, "(*sync/atomic.") {
		op := key[strings.LastIndex(key, ".")+1:]
		if strings.HasPrefix(op, "Load") {
			return nil, true
		}
		if len(c.Args) > 0 {
			fr := newFrame(g, nil, nil, "", 0)
			ns, _ := fr.staticTargets(c.Args[0])
			return ns, true
		}
	}
	if _, ok := isMutexOp(key); ok {
		return lockArrNames(g), true
	}
	if strings.HasPrefix(key, "(*sync.Mutex).") || strings.HasPrefix(key, "(*sync.RWMutex).") {
		return nil, true
	}
	return nil, false
}

func (fr *Frame) intrinsic(key string, callee *ssa.Function, c *ssa.CallCommon, args []*Val, resT types.Type, setRes func(*Val), h Heap, name string) (Heap, bool) {
	g := fr.g
	if strings.HasPrefix(key, "sync/atomic.") {
		op := strings.TrimPrefix(key, "sync/atomic.")
		var kind string
		for _, k := range []string{"CompareAndSwap", "Add", "Load", "Store", "Swap"} {
			if strings.HasPrefix(op, k) {
				kind = k
			}
		}
		if kind == "" || strings.HasSuffix(op, "Pointer") {
			return h, false
		}
		a := args[0].A
		if a == nil {
			panic(genErr("atomic op on a pointer without address form"))
		}
		fr.nilCheck(a, c.Pos(), key)
		// shared word under a rely/guarantee protocol: the environment acts first
		var pi *protoInst
		var pre []*SVal
		ord := 0
		if fr.top {
			if pi = fr.protoFor(a, h); pi != nil {
				fr.oblig("instance", "", "atomic.instance", fmt.Sprintf("(= %s %s)", a.Base, pi.instTerm(g)), "atomic operation on the protocol instance "+pi.pr.Name, c.Pos())
				ord = fr.atomicOrdinal(c)
				h = fr.envStep(h)
				pre = fr.protoState(pi, h)
			}
		}
		done := func(nh Heap, res *Val, rt types.Type) (Heap, bool) {
			if pi != nil {
				var r *SVal
				if res != nil {
					r = &SVal{V: res, T: rt}
				}
				nh = fr.afterAtomic(pi, ord, pre, nh, r, c)
			}
			return nh, true
		}
		cur := g.define(fr.prefix+"atomic_old", g.sortOf(a.finalType()), g.load(h, a))
		switch kind {
		case "Load":
			setRes(&Val{T: cur})
			return done(h, &Val{T: cur}, a.finalType())
		case "Store":
			return done(g.store(h, a, args[1].T), nil, nil)
		case "Add":
			nv := g.define(fr.prefix+"atomic_new", g.sortOf(a.finalType()), g.iadd(cur, args[1].T))
			fr.overflowOblig(nv, a.finalType(), key, c.Pos())
			setRes(&Val{T: nv})
			return done(g.store(h, a, nv), &Val{T: nv}, a.finalType())
		case "Swap":
			setRes(&Val{T: cur})
			return done(g.store(h, a, args[1].T), &Val{T: cur}, a.finalType())
		case "CompareAndSwap":
			ok := g.define(fr.prefix+"cas_ok", "Bool", fmt.Sprintf("(= %s %s)", cur, args[1].T))
			setRes(&Val{T: ok})
			nh := g.store(h, a, ite(ok, args[2].T, cur))
			return done(nh, &Val{T: ok}, types.Typ[types.Bool])
		}
	}
	if op, ok := isMutexOp(key); ok {
		return fr.lockOp(op, fr.argTerm(args[0]), h), true
	}
	switch key {
	case "(*sync.WaitGroup).Add", "(*sync.WaitGroup).Done", "runtime.Gosched", "(*sync.Once).Do#skip":
		return h, true
	case "math.Float64bits", "math.Float32bits", "math.Float64frombits", "math.Float32frombits":
		setRes(&Val{T: args[0].T})
		return h, true
	}
	return h, false
}

// ---------- contracts at call sites ----------

func (fr *Frame) applyContract(fc *FuncContract, callee *ssa.Function, c *ssa.CallCommon, args []*Val, resT types.Type, setRes func(*Val), h Heap, name, key string) Heap {
	g := fr.g
	var sig *types.Signature
	if callee != nil {
		sig = callee.Signature
	} else {
		sig = c.Signature()
	}
	env := fr.newSpecEnv(h, h)
	env.bindSig(sig, callee, c, args)
	env.where = "call to " + key
	// requires
	for i, rq := range fc.Requires {
		f := env.boolTerm(rq.Expr)
		label := rq.Label
		if label == "" {
			label = fmt.Sprintf("requires%d", i+1)
		}
		fr.oblig("precondition", "", fmt.Sprintf("call.%s.%s", shortName(fc.Name), label), f, rq.Src, c.Pos())
	}
	// modifies
	var nh Heap
	if fc.ModAll {
		nh = fr.havocAll(h)
	} else {
		nh = h.clone()
		for _, m := range fc.Modifies {
			nh = env.havocTarget(m, nh)
		}
		// allocation may happen inside
		old := fr.allocOf(h)
		na := g.fresh("$alloc", "Int")
		g.defs = append(g.defs, fmt.Sprintf("(>= %s %s)", na, old))
		nh["$alloc"] = na
	}
	// result
	var res *Val
	if fc.Pure && len(fc.Modifies) == 0 && !fc.ModAll {
		res = fr.pureResult(key, callee, args, sig, resT, h)
	} else {
		res = fr.symbolic("res_"+name, resT)
	}
	fr.assumeTypeFacts(res, resT, nh)
	setRes(res)
	post := fr.newSpecEnv(nh, h)
	post.bindSig(sig, callee, c, args)
	post.bindResult(res, resT)
	post.where = "ensures of " + key
	for _, en := range fc.Ensures {
		f := post.boolTerm(en.Expr)
		fr.assume(f, "ensures of "+fc.Name+": "+en.Src)
	}
	for _, en := range fc.EnsuresGhost {
		f := post.boolTerm(en.Expr)
		fr.assume(f, "ghost ensures of "+fc.Name+": "+en.Src)
	}
	return nh
}

func shortName(s string) string {
	if i := strings.LastIndex(s, "/"); i >= 0 {
		s = s[i+1:]
	}
	return sanitize(s)
}

// pureResult: result is an uninterpreted function of the arguments (same arguments, same result).
func (fr *Frame) pureResult(key string, callee *ssa.Function, args []*Val, sig *types.Signature, resT types.Type, h Heap) *Val {
	g := fr.g
	var sorts, terms []string
	ptypes := sigParamTypes(sig)
	for i, a := range args {
		if i >= len(ptypes) {
			break
		}
		if a.Tup != nil {
			return fr.symbolic("pure", resT)
		}
		sorts = append(sorts, g.sortOf(ptypes[i]))
		terms = append(terms, fr.argTerm(a))
	}
	mk := func(suffix string, t types.Type) *Val {
		fn := "pure$" + sanitize(key) + suffix
		g.decl("fun:"+fn, fmt.Sprintf("(declare-fun %s (%s) %s)", fn, strings.Join(sorts, " "), g.sortOf(t)))
		if len(terms) == 0 {
			return fr.wrap(fn, t)
		}
		return fr.wrap(g.define(fr.prefix+"pure", g.sortOf(t), fmt.Sprintf("(%s %s)", fn, strings.Join(terms, " "))), t)
	}
	if tup, ok := resT.(*types.Tuple); ok {
		r := &Val{}
		for i := 0; i < tup.Len(); i++ {
			r.Tup = append(r.Tup, mk(fmt.Sprintf("$%d", i), tup.At(i).Type()))
		}
		return r
	}
	return mk("", resT)
}

func sigParamTypes(sig *types.Signature) []types.Type {
	var ts []types.Type
	if sig.Recv() != nil {
		ts = append(ts, sig.Recv().Type())
	}
	for i := 0; i < sig.Params().Len(); i++ {
		ts = append(ts, sig.Params().At(i).Type())
	}
	return ts
}

// inlineCall translates the callee's body at the call site.
func (fr *Frame) inlineCall(callee *ssa.Function, fc *FuncContract, c *ssa.CallCommon, args []*Val, resT types.Type, setRes func(*Val), h Heap, name string) Heap {
	g := fr.g
	g.nfresh++
	sub := newFrame(g, callee, fc, fmt.Sprintf("%s%s_i%d$", fr.prefix, sanitize(callee.Name()), g.nfresh), fr.depth+1)
	sub.unitName = fr.unitName
	sub.nOblig = fr.nOblig
	sub.safety = fr.safety
	// closures: bind free variables from the MakeClosure at the call site
	if mc, ok := c.Value.(*ssa.MakeClosure); ok {
		for i, fv := range callee.FreeVars {
			sub.vals[fv] = fr.val(mc.Bindings[i])
		}
	}
	savedGuard, savedBlock := fr.curGuard, fr.curBlock
	sub.run(args, fr.curGuard, h)
	fr.curGuard, fr.curBlock = savedGuard, savedBlock
	if len(sub.rets) == 0 {
		// never returns (panics/loops): continuation unreachable
		fr.assume("false", "callee "+callee.Name()+" never returns")
		setRes(fr.symbolic("res_"+name, resT))
		return h
	}
	var guards []string
	var heaps []Heap
	for _, r := range sub.rets {
		guards = append(guards, r.guard)
		heaps = append(heaps, r.heap)
	}
	nh := g.mergeHeaps(guards, heaps)
	// results
	nres := len(sub.rets[0].results)
	merged := make([]*Val, nres)
	for i := 0; i < nres; i++ {
		var rt types.Type
		if tup, ok := resT.(*types.Tuple); ok {
			rt = tup.At(i).Type()
		} else {
			rt = resT
		}
		last := sub.rets[len(sub.rets)-1].results[i]
		t := fr.argTerm(last)
		for j := len(sub.rets) - 2; j >= 0; j-- {
			t = ite(guards[j], fr.argTerm(sub.rets[j].results[i]), t)
		}
		nv := fr.wrap(g.define(fr.prefix+"inl_"+name, g.sortOf(rt), t), rt)
		if len(sub.rets) == 1 && last.A != nil {
			nv.A = last.A
		}
		merged[i] = nv
	}
	// the continuation is reached only if the callee returned
	fr.assume(or(guards...), "inlined callee returned")
	switch {
	case nres == 0:
		setRes(&Val{})
	case nres == 1:
		if _, isTup := resT.(*types.Tuple); isTup {
			setRes(&Val{Tup: merged})
		} else {
			setRes(merged[0])
		}
	default:
		setRes(&Val{Tup: merged})
	}
	return nh
}

// mapLenFacts: len(m) is the number of keys present: non-negative, positive iff some key is present.
// True of every real heap, so stated unconditionally.
func (fr *Frame) mapLenFacts(mt *types.Map, m string, h Heap) {
	g := fr.g
	d, _, c := g.mapArrNames(mt)
	darr := g.heapArr(h, d, g.heapSort[d])
	carr := g.heapArr(h, c, g.heapSort[c])
	key := "maplen:" + darr + ":" + carr + ":" + m
	if g.assumed[key] {
		return
	}
	g.assumed[key] = true
	card := fmt.Sprintf("(select %s %s)", carr, m)
	w := g.fresh("mapwitness", g.sortOf(mt.Key()))
	ks := g.sortOf(mt.Key())
	g.defs = append(g.defs, and(g.ile(g.ilit(0), card), g.ile(card, g.maxLen())))
	g.defs = append(g.defs, fmt.Sprintf("(forall ((k %s)) (! (=> (select (select %s %s) k) %s) :pattern ((select (select %s %s) k))))", ks, darr, m, g.ilt(g.ilit(0), card), darr, m))
	g.defs = append(g.defs, fmt.Sprintf("(=> %s (select (select %s %s) %s))", g.ilt(g.ilit(0), card), darr, m, w))
}

// isRecoverOnlyClosure: the function's entry block ends in `if recover() != nil` and the other
// branch returns immediately.
func isRecoverOnlyClosure(fn *ssa.Function) bool {
	if fn.Parent() == nil || len(fn.Blocks) == 0 {
		return false
	}
	b := fn.Blocks[0]
	var rec ssa.Value
	for _, in := range b.Instrs {
		switch x := in.(type) {
		case *ssa.Call:
			if bi, ok := x.Common().Value.(*ssa.Builtin); ok && bi.Name() == "recover" {
				rec = x
				continue
			}
			return false
		case *ssa.DebugRef, *ssa.BinOp, *ssa.If, *ssa.UnOp, *ssa.Alloc, *ssa.Store:
			continue
		default:
			return false
		}
	}
	if rec == nil {
		return false
	}
	ifi, ok := b.Instrs[len(b.Instrs)-1].(*ssa.If)
	if !ok {
		return false
	}
	cmp, ok := ifi.Cond.(*ssa.BinOp)
	if !ok || (cmp.X != rec && cmp.Y != rec) {
		return false
	}
	// the branch taken when recover() == nil must only return
	els := b.Succs[1]
	if cmp.Op.String() == "==" {
		els = b.Succs[0]
	}
	for _, in := range els.Instrs {
		switch in.(type) {
		case *ssa.Return, *ssa.RunDefers, *ssa.DebugRef:
		default:
			return false
		}
	}
	return true
}

func (fr *Frame) paramVal(name string) *Val {
	for _, prm := range fr.fn.Params {
		if prm.Name() == name {
			return fr.vals[prm]
		}
	}
	return nil
}
