package main

// Ground instantiation pre-pass ("E-matching modulo offsets").
//
// SMT solvers do not match quantifier patterns through index arithmetic: a fact
// (forall i. ... (select A (+ off i)) ...) is not instantiated for a ground read (select A t)
// unless t is syntactically (+ off k). This pass does it: it skolemises the negated goal, harvests
// the ground index terms t of every array/string read in the query, and adds the instances
// i := t - off of every universally quantified assertion. The quantified assertions stay in the
// query, so the pass only adds consequences of what is already assumed (sound by construction);
// it makes the solvers find the proof in the ground part.

import (
	"fmt"
	"os"
	"sort"
	"strings"
)

type sx struct {
	atom string
	list []*sx
}

func (s *sx) isAtom() bool { return s.list == nil && s.atom != "" }

func (s *sx) String() string {
	var sb strings.Builder
	s.write(&sb)
	return sb.String()
}

func (s *sx) write(sb *strings.Builder) {
	if s.list == nil {
		sb.WriteString(s.atom)
		return
	}
	sb.WriteByte('(')
	for i, c := range s.list {
		if i > 0 {
			sb.WriteByte(' ')
		}
		c.write(sb)
	}
	sb.WriteByte(')')
}

func parseSexps(src string) []*sx {
	var out []*sx
	var stack []*sx
	i := 0
	push := func(n *sx) {
		if len(stack) == 0 {
			out = append(out, n)
		} else {
			top := stack[len(stack)-1]
			top.list = append(top.list, n)
		}
	}
	for i < len(src) {
		c := src[i]
		switch {
		case c == ' ' || c == '\n' || c == '\t' || c == '\r':
			i++
		case c == ';':
			for i < len(src) && src[i] != '\n' {
				i++
			}
		case c == '(':
			n := &sx{list: []*sx{}}
			push(n)
			stack = append(stack, n)
			i++
		case c == ')':
			stack = stack[:len(stack)-1]
			i++
		case c == '|':
			j := i + 1
			for j < len(src) && src[j] != '|' {
				j++
			}
			push(&sx{atom: src[i : j+1]})
			i = j + 1
		case c == '"':
			j := i + 1
			for j < len(src) && src[j] != '"' {
				j++
			}
			push(&sx{atom: src[i : j+1]})
			i = j + 1
		default:
			j := i
			for j < len(src) && !strings.ContainsRune(" \n\t\r()", rune(src[j])) {
				j++
			}
			push(&sx{atom: src[i:j]})
			i = j
		}
	}
	return out
}

func atom(s string) *sx { return &sx{atom: s} }
func lst(xs ...*sx) *sx { return &sx{list: xs} }
func (s *sx) head() string {
	if s.list != nil && len(s.list) > 0 && s.list[0].isAtom() {
		return s.list[0].atom
	}
	return ""
}

func subst(s *sx, m map[string]*sx) *sx {
	if s.list == nil {
		if r, ok := m[s.atom]; ok {
			return r
		}
		return s
	}
	// do not substitute under a binder that rebinds the name
	h := s.head()
	if h == "forall" || h == "exists" || h == "let" {
		inner := map[string]*sx{}
		for k, v := range m {
			inner[k] = v
		}
		if len(s.list) > 1 && s.list[1].list != nil {
			for _, b := range s.list[1].list {
				if b.list != nil && len(b.list) > 0 && b.list[0].isAtom() {
					delete(inner, b.list[0].atom)
				}
			}
		}
		m = inner
	}
	n := &sx{list: make([]*sx, len(s.list))}
	for i, c := range s.list {
		n.list[i] = subst(c, m)
	}
	return n
}

func mentions(s *sx, names map[string]bool) bool {
	if s.list == nil {
		return names[s.atom]
	}
	for _, c := range s.list {
		if mentions(c, names) {
			return true
		}
	}
	return false
}

type univFact struct {
	guard   []*sx
	binders []*sx // (name sort)
	body    *sx
	def     bool // comes from a definitional axiom (append, copy, conversions): its instances feed the next round
}

// stripBang removes (! body :pattern ...) annotations.
func stripBang(s *sx) *sx {
	if s.head() == "!" && len(s.list) >= 2 {
		return s.list[1]
	}
	return s
}

func collectUniversals(s *sx, guard []*sx, out *[]univFact) {
	s = stripBang(s)
	switch s.head() {
	case "forall":
		if len(s.list) == 3 {
			body := stripBang(s.list[2])
			*out = append(*out, univFact{guard: guard, binders: s.list[1].list, body: body})
		}
	case "=>":
		if len(s.list) == 3 {
			collectUniversals(s.list[2], append(append([]*sx{}, guard...), s.list[1]), out)
		}
	case "and":
		for _, c := range s.list[1:] {
			collectUniversals(c, guard, out)
		}
	}
}

type instPass struct {
	idxSort  string
	bv       bool
	nsk      int
	decls    []string
	maxTotal int
}

// negate returns the skolemised negation of a goal formula.
func (p *instPass) negate(f *sx) *sx {
	f = stripBang(f)
	switch f.head() {
	case "forall":
		if len(f.list) == 3 {
			m := map[string]*sx{}
			for _, b := range f.list[1].list {
				p.nsk++
				name := fmt.Sprintf("sk!%d!%s", p.nsk, strings.Trim(b.list[0].atom, "|"))
				name = sanitize(name)
				p.decls = append(p.decls, fmt.Sprintf("(declare-const %s %s)", name, b.list[1].String()))
				m[b.list[0].atom] = atom(name)
			}
			return p.negate(subst(stripBang(f.list[2]), m))
		}
	case "=>":
		if len(f.list) == 3 {
			return lst(atom("and"), f.list[1], p.negate(f.list[2]))
		}
	case "and":
		parts := []*sx{atom("or")}
		for _, c := range f.list[1:] {
			parts = append(parts, p.negate(c))
		}
		return lst(parts...)
	}
	return lst(atom("not"), f)
}

// readIndex: for a read term (select A IDX) / (sat S IDX) returns IDX.
func readIndex(s *sx) *sx {
	if s.list == nil {
		return nil
	}
	if s.head() == "sat" && len(s.list) == 3 {
		if s.list[1].isAtom() && strings.HasPrefix(s.list[1].atom, "strlit$") {
			return nil // bytes of string literals are never relevant index terms
		}
		return s.list[2]
	}
	if s.head() == "select" && len(s.list) == 3 {
		a := s.list[1]
		switch {
		case a.isAtom():
			if idxArrayAtoms[a.atom] {
				return s.list[2]
			}
		case a.head() == "select" && len(a.list) == 3 && a.list[1].isAtom() && strings.HasPrefix(a.list[1].atom, "E$"):
			return s.list[2] // element of a slice/array backing store
		case strings.HasPrefix(a.head(), "f$"):
			return s.list[2] // array-typed struct field
		}
	}
	return nil
}

// idxArrayAtoms: array constants indexed by the index sort (set per query from the declarations).
var idxArrayAtoms = map[string]bool{}

func isHeapArrayName(a string) bool {
	for _, p := range []string{"E$", "H$", "C$", "MD$", "MV$", "MC$", "G$", "RS$"} {
		if strings.HasPrefix(a, p) {
			return true
		}
	}
	return false
}

// linNorm normalises sums and differences: (+ off (- t off)) becomes t. Works for Int and for
// bit-vectors (ring identities only).
func (p *instPass) linNorm(t *sx) *sx {
	add, sub := "+", "-"
	if p.bv {
		add, sub = "bvadd", "bvsub"
	}
	if t.list == nil || (t.head() != add && t.head() != sub) {
		if t.list != nil {
			n := &sx{list: make([]*sx, len(t.list))}
			for i, c := range t.list {
				n.list[i] = p.linNorm(c)
			}
			return n
		}
		return t
	}
	coef := map[string]int{}
	terms := map[string]*sx{}
	var order []string
	var walk func(x *sx, sign int)
	walk = func(x *sx, sign int) {
		if x.list != nil && x.head() == add {
			for _, c := range x.list[1:] {
				walk(c, sign)
			}
			return
		}
		if x.list != nil && x.head() == sub && len(x.list) >= 3 {
			walk(x.list[1], sign)
			for _, c := range x.list[2:] {
				walk(c, -sign)
			}
			return
		}
		if x.list != nil && x.head() == sub && len(x.list) == 2 && !p.bv {
			walk(x.list[1], -sign)
			return
		}
		n := p.linNorm(x)
		k := n.String()
		if _, ok := coef[k]; !ok {
			order = append(order, k)
			terms[k] = n
		}
		coef[k] += sign
	}
	walk(t, 1)
	var pos, neg []*sx
	for _, k := range order {
		c := coef[k]
		for ; c > 0; c-- {
			pos = append(pos, terms[k])
		}
		for ; c < 0; c++ {
			neg = append(neg, terms[k])
		}
	}
	var r *sx
	switch len(pos) {
	case 0:
		if p.bv {
			r = atom("#x0000000000000000")
		} else {
			r = atom("0")
		}
	case 1:
		r = pos[0]
	default:
		r = lst(append([]*sx{atom(add)}, pos...)...)
	}
	for _, n := range neg {
		r = lst(atom(sub), r, n)
	}
	return r
}

// groundReads collects index terms of reads that mention no bound variable.
func (p *instPass) groundReads(s *sx, bound map[string]bool, acc map[string]*sx) {
	if s.list == nil {
		return
	}
	h := s.head()
	if h == "forall" || h == "exists" {
		nb := map[string]bool{}
		for k := range bound {
			nb[k] = true
		}
		for _, b := range s.list[1].list {
			nb[b.list[0].atom] = true
		}
		for _, c := range s.list[2:] {
			p.groundReads(c, nb, acc)
		}
		return
	}
	if idx := readIndex(s); idx != nil && !mentions(idx, bound) {
		n := p.linNorm(idx)
		acc[n.String()] = n
	}
	for _, c := range s.list {
		p.groundReads(c, bound, acc)
	}
}

// patternsFor finds, for binder v, the ways it occurs as a read index: returns functions mapping
// a ground index term t to the candidate value of v.
func (p *instPass) patternsFor(body *sx, v string, others map[string]bool) []func(t *sx) *sx {
	var out []func(t *sx) *sx
	seen := map[string]bool{}
	add, sub := "+", "-"
	if p.bv {
		add, sub = "bvadd", "bvsub"
	}
	var walk func(s *sx)
	walk = func(s *sx) {
		if s.list == nil {
			return
		}
		if idx := readIndex(s); idx != nil {
			key := idx.String()
			if !seen[key] {
				seen[key] = true
				only := map[string]bool{v: true}
				switch {
				case idx.isAtom() && idx.atom == v:
					out = append(out, func(t *sx) *sx { return t })
				case idx.head() == add && mentions(idx, only) && !mentions(idx, others):
					// exactly one direct argument is v
					var rest []*sx
					cnt := 0
					ok := true
					for _, a := range idx.list[1:] {
						if a.isAtom() && a.atom == v {
							cnt++
						} else {
							if mentions(a, only) {
								ok = false
							}
							rest = append(rest, a)
						}
					}
					if ok && cnt == 1 {
						rest := rest
						out = append(out, func(t *sx) *sx {
							r := t
							for _, o := range rest {
								r = lst(atom(sub), r, o)
							}
							return r
						})
					}
				case idx.head() == sub && len(idx.list) == 3 && !mentions(idx, others):
					a, b := idx.list[1], idx.list[2]
					if a.isAtom() && a.atom == v && !mentions(b, only) {
						out = append(out, func(t *sx) *sx { return lst(atom(add), t, b) })
					} else if b.isAtom() && b.atom == v && !mentions(a, only) {
						out = append(out, func(t *sx) *sx { return lst(atom(sub), a, t) })
					}
				}
			}
		}
		for _, c := range s.list {
			walk(c)
		}
	}
	walk(body)
	return out
}

// run performs the pass on a query: decl lines, assertion terms (context) and the goal formula.
// It returns extra declarations and extra assertions (instances + the skolemised negated goal).
func (p *instPass) run(context []*sx, nDefs int, goalGuard, goal *sx) (extraDecls []string, extra []*sx, negGoal *sx) {
	negGoal = p.negate(goal)
	var facts []univFact
	for i, a := range context {
		before := len(facts)
		collectUniversals(a, nil, &facts)
		if i < nDefs {
			for j := before; j < len(facts); j++ {
				facts[j].def = true
			}
		}
	}
	// universals inside the (positive part of the) negated goal's hypotheses
	collectUniversals(negGoal, nil, &facts)
	emitted := map[string]bool{}
	total := 0
	all := append(append([]*sx{}, context...), negGoal, goalGuard)
	var feedback []*sx // instances whose reads are harvested in the next round
	for round := 0; round < 2; round++ {
		// ground index terms in priority order: the goal first, then the context from the most
		// recent assertion backwards (caps then cut the least relevant candidates)
		seenG := map[string]bool{}
		var gts []*sx
		harvest := func(a *sx) {
			ground := map[string]*sx{}
			p.groundReads(a, map[string]bool{}, ground)
			var keys []string
			for k := range ground {
				keys = append(keys, k)
			}
			sort.Strings(keys)
			for _, k := range keys {
				if !seenG[k] {
					seenG[k] = true
					gts = append(gts, ground[k])
				}
			}
		}
		harvest(negGoal)
		harvest(goalGuard)
		for i := len(feedback) - 1; i >= 0; i-- {
			harvest(feedback[i])
		}
		for i := len(all) - 1; i >= 0; i-- {
			harvest(all[i])
		}
		if os.Getenv("GOVC_DEBUG_INST") != "" {
			fmt.Fprintf(os.Stderr, "inst round %d: %d ground index terms, %d facts\n", round, len(gts), len(facts))
			for _, t := range gts {
				fmt.Fprintf(os.Stderr, "   %s\n", t.String())
			}
		}
		var added []*sx
		for _, f := range facts {
			// candidate values per index-sorted binder
			var names []string
			cands := map[string][]*sx{}
			okFact := true
			for _, b := range f.binders {
				if b.list == nil || len(b.list) != 2 {
					okFact = false
					break
				}
				if b.list[1].String() != p.idxSort {
					okFact = false // non-index binder: left to the solver's E-matching
					break
				}
				v := b.list[0].atom
				names = append(names, v)
			}
			if !okFact || len(names) == 0 || len(names) > 2 {
				continue
			}
			for _, v := range names {
				others := map[string]bool{}
				for _, o := range names {
					if o != v {
						others[o] = true
					}
				}
				pats := p.patternsFor(f.body, v, others)
				seenC := map[string]bool{}
				for _, pat := range pats {
					for _, t := range gts {
						c := p.linNorm(pat(t))
						k := c.String()
						if !seenC[k] {
							seenC[k] = true
							cands[v] = append(cands[v], c)
						}
					}
				}
				if len(cands[v]) == 0 {
					okFact = false
				}
			}
			if !okFact {
				continue
			}
			limit := 300
			if len(names) == 2 {
				limit = 900
			}
			count := 0
			emit := func(m map[string]*sx) {
				if count >= limit || total >= p.maxTotal {
					return
				}
				inst := subst(f.body, m)
				var term *sx
				if len(f.guard) > 0 {
					g := []*sx{atom("and")}
					g = append(g, f.guard...)
					term = lst(atom("=>"), lst(g...), inst)
				} else {
					term = inst
				}
				k := term.String()
				if !emitted[k] {
					emitted[k] = true
					added = append(added, term)
					if f.def {
						feedback = append(feedback, term)
					}
					count++
					total++
				}
			}
			if len(names) == 2 {
				c0, c1 := cands[names[0]], cands[names[1]]
				for d := 0; d < len(c0)+len(c1)-1 && count < limit && total < p.maxTotal; d++ {
					for i := 0; i <= d; i++ {
						j := d - i
						if i < len(c0) && j < len(c1) {
							emit(map[string]*sx{names[0]: c0[i], names[1]: c1[j]})
						}
					}
				}
				continue
			}
			var rec func(i int, m map[string]*sx)
			rec = func(i int, m map[string]*sx) {
				if count >= limit || total >= p.maxTotal {
					return
				}
				if i == len(names) {
					emit(m)
					return
				}
				for _, c := range cands[names[i]] {
					m2 := map[string]*sx{}
					for k, v := range m {
						m2[k] = v
					}
					m2[names[i]] = c
					rec(i+1, m2)
				}
			}
			rec(0, map[string]*sx{})
		}
		if len(added) == 0 {
			break
		}
		extra = append(extra, added...)
	}
	return p.decls, extra, negGoal
}
