package main

// Frame obligations: "nothing outside the modifies clause changed". At every return of a unit the
// final heap is compared with the entry heap, array by array: for every object that existed at entry
// (reference not above the entry allocation mark; ghost arrays: every key) and is not named by a
// modifies target, the array holds the same value. Objects allocated by the call itself are free.
// The targets are evaluated in the pre-state. One obligation <unit>.frame groups all arrays and all
// return sites. Not compared (stated in the evidence): channel traffic ghosts, lock ghosts and the
// iteration seen-sets — they are per-thread bookkeeping of the verifier, not program state.

import (
	"fmt"
	"go/token"
	"go/types"
	"os"
	"sort"
	"strings"

	"golang.org/x/tools/go/ssa"
)

type frameTarget struct {
	name  string
	keys  []string
	whole bool
}

func frameSkipArray(n string) bool {
	for _, p := range []string{"RS$", "RCV$", "SND$", "SNDN$", "RCVN$", "CLOSED$", "LOCK", "$"} {
		if strings.HasPrefix(n, p) {
			return true
		}
	}
	return false
}

// frameTargets maps one modifies expression to (array, key prefix) pairs, evaluated in env (pre-state).
func (e *SEnv) frameTargets(m *SX) []frameTarget {
	g := e.g
	term := func(v *SVal) string {
		if v.V.T == "" && v.V.A != nil {
			return g.ptrTerm(v.V.A)
		}
		return v.V.T
	}
	if t, fi, ok := e.anyofField(m); ok {
		n, _ := g.fieldArrName(t, fi)
		return []frameTarget{{name: n, whole: true}}
	}
	switch m.Op {
	case "sel":
		base := e.tr(m.Args[0])
		if base.T != nil {
			if p, ok := base.T.Underlying().(*types.Pointer); ok {
				if st, ok := p.Elem().Underlying().(*types.Struct); ok {
					fi, path := findField(p.Elem(), st, m.Tok)
					if fi < 0 {
						e.fail("modifies: field %s not found in %s", m.Tok, p.Elem())
					}
					if base.V.A != nil && len(base.V.A.Sels) > 0 {
						// field of a struct stored by value inside another object: the enclosing field array
						a := base.V.A
						n, _ := g.fieldArrName(a.T, a.Sels[0].Field)
						return []frameTarget{{name: n, keys: []string{a.Base}}}
					}
					n, _ := g.fieldArrName(p.Elem(), path[0])
					return []frameTarget{{name: n, keys: []string{term(base)}}}
				}
			}
		}
	case "un":
		if m.Tok == "*" {
			v := e.tr(m.Args[0])
			if p, ok := v.T.Underlying().(*types.Pointer); ok {
				if at, ok := p.Elem().Underlying().(*types.Array); ok {
					n, _ := g.elemArrName(at.Elem())
					return []frameTarget{{name: n, keys: []string{term(v)}}}
				}
				if g.isSplitStruct(p.Elem()) {
					st := p.Elem().Underlying().(*types.Struct)
					var ts []frameTarget
					for i := 0; i < st.NumFields(); i++ {
						n, _ := g.fieldArrName(p.Elem(), i)
						ts = append(ts, frameTarget{name: n, keys: []string{term(v)}})
					}
					return ts
				}
				n, _ := g.cellArrName(p.Elem())
				return []frameTarget{{name: n, keys: []string{term(v)}}}
			}
		}
	case "call":
		if m.Args[0].Op == "id" {
			switch m.Args[0].Tok {
			case "elems":
				v := e.tr(m.Args[1])
				if sl, ok := v.T.Underlying().(*types.Slice); ok {
					n, _ := g.elemArrName(sl.Elem())
					return []frameTarget{{name: n, keys: []string{fmt.Sprintf("(s_arr %s)", v.V.T)}}}
				}
			case "mapof":
				v := e.tr(m.Args[1])
				if mt, ok := v.T.Underlying().(*types.Map); ok {
					d, va, c := g.mapArrNames(mt)
					return []frameTarget{{name: d, keys: []string{v.V.T}}, {name: va, keys: []string{v.V.T}}, {name: c, keys: []string{v.V.T}}}
				}
			}
			if gh, ok := g.P.Contracts.Ghosts[m.Args[0].Tok]; ok {
				name, _, pts, _ := e.ghostName(gh)
				var keys []string
				for i, a := range m.Args[1:] {
					if i >= len(pts) {
						break
					}
					keys = append(keys, term(e.coerceTo(e.tr(a), pts[i])))
				}
				return []frameTarget{{name: name, keys: keys, whole: len(keys) == 0}}
			}
		}
	case "id":
		if gh, ok := g.P.Contracts.Ghosts[m.Tok]; ok {
			name, _, _, _ := e.ghostName(gh)
			return []frameTarget{{name: name, whole: true}}
		}
		if e.pkg != nil {
			if v, ok := e.pkg.Scope().Lookup(m.Tok).(*types.Var); ok {
				gl := g.P.globalOf(v)
				if g.isSplitStruct(v.Type()) {
					st := v.Type().Underlying().(*types.Struct)
					var ts []frameTarget
					for i := 0; i < st.NumFields(); i++ {
						n, _ := g.fieldArrName(v.Type(), i)
						ts = append(ts, frameTarget{name: n, keys: []string{g.P.globalRef(gl)}})
					}
					return ts
				}
				n, _ := g.cellArrName(v.Type())
				return []frameTarget{{name: n, keys: []string{g.P.globalRef(gl)}}}
			}
		}
	}
	e.fail("frame: unsupported modifies target %s", m)
	return nil
}

// arraySortLevels splits "(Array K1 (Array K2 V))" into key sorts [K1 K2] and the value sort.
func arraySortLevels(srt string) ([]string, string) {
	var keys []string
	for strings.HasPrefix(srt, "(Array ") {
		rest := srt[len("(Array ") : len(srt)-1]
		k := firstSort(rest)
		keys = append(keys, k)
		srt = strings.TrimSpace(rest[len(k):])
	}
	return keys, srt
}

// frameActive: does this unit carry frame obligations?
func (fr *Frame) frameActive() bool {
	fc := fr.fc
	if !fr.top || fc == nil || fc.Trusted || fc.ModAll || fc.NoFrame || fc.Swept || os.Getenv("GOVC_FRAME") == "0" {
		return false
	}
	// the frame of a function matters where its contract replaces its body: at call sites in other
	// verified units. Entry points that nothing calls through a contract (behaviour run loops,
	// goroutine bodies) are checked only if they declare a modifies clause themselves.
	return fc.ViaContract || len(fc.Modifies) > 0
}

// frameFormulas: for every heap array whose term in h differs from the entry term, "unchanged outside
// the modifies targets" (names, formulas).
func (fr *Frame) frameFormulas(h Heap) ([]string, []string) {
	fc := fr.fc
	g := fr.g
	if fr.frameTargetsCache == nil {
		env := fr.newSpecEnv(fr.entry, fr.entry)
		fr.bindEntryParams(env)
		byName := map[string][]frameTarget{}
		for _, m := range fc.Modifies {
			env.where = fmt.Sprintf("%s:%d", fc.File, fc.Line)
			for _, t := range env.frameTargets(m) {
				byName[t.name] = append(byName[t.name], t)
			}
		}
		fr.frameTargetsCache = byName
	}
	byName := fr.frameTargetsCache
	// words under a rely/guarantee protocol and their ghosts are written by other threads at any time
	// (environment steps): they are volatile, not part of any function's frame
	volatile := map[string]bool{}
	for _, pr := range g.P.Contracts.Protocols {
		for _, gh := range pr.Ghosts {
			volatile["G$"+gh] = true
		}
		volatile["H$"+strings.ReplaceAll(pr.PkgPath, "/", ".")+"."+pr.Struct+"$"+pr.Field] = true
	}
	var names []string
	for n := range g.heapSort {
		if !frameSkipArray(n) && !volatile[n] {
			names = append(names, n)
		}
	}
	sort.Strings(names)
	allocEntry := fr.allocOf(fr.entry)
	var outN, outF []string
	for _, n := range names {
		srt := g.heapSort[n]
		cur := g.heapArr(h, n, srt)
		ent := g.heapArr(fr.entry, n, srt)
		if cur == ent {
			continue
		}
		ts := byName[n]
		whole := false
		depth := 1
		for _, t := range ts {
			if t.whole {
				whole = true
			}
			if len(t.keys) > depth {
				depth = len(t.keys)
			}
		}
		if whole {
			continue
		}
		ksorts, _ := arraySortLevels(srt)
		if depth > len(ksorts) {
			depth = len(ksorts)
		}
		var binds, vars []string
		for i := 0; i < depth; i++ {
			g.nfresh++
			v := fmt.Sprintf("q$fk%d!%d", i, g.nfresh)
			vars = append(vars, v)
			binds = append(binds, fmt.Sprintf("(%s %s)", v, ksorts[i]))
		}
		var excl []string
		for _, t := range ts {
			var eqs []string
			for i, k := range t.keys {
				if i < depth {
					eqs = append(eqs, fmt.Sprintf("(= %s %s)", vars[i], k))
				}
			}
			excl = append(excl, not(and(eqs...)))
		}
		// objects allocated by this call are not constrained (reference-indexed program arrays only)
		if !strings.HasPrefix(n, "G$") && ksorts[0] == "Int" {
			excl = append(excl, fmt.Sprintf("(<= %s %s)", vars[0], allocEntry))
		}
		sel := func(arr string) string {
			t := arr
			for _, v := range vars {
				t = fmt.Sprintf("(select %s %s)", t, v)
			}
			return t
		}
		pat := sel(cur)
		outN = append(outN, n)
		outF = append(outF, fmt.Sprintf("(forall (%s) (! (=> %s (= %s %s)) :pattern (%s)))", strings.Join(binds, " "), and(excl...), sel(cur), sel(ent), pat))
	}
	return outN, outF
}

func (fr *Frame) frameOblig(label string, h Heap, pos token.Pos) {
	names, fs := fr.frameFormulas(h)
	if len(fs) == 0 {
		return
	}
	if os.Getenv("GOVC_FRAME_SPLIT") != "" {
		for i, f := range fs {
			fr.oblig("frame", "frame", "frame", f, label+": only what the modifies clause names may change: "+names[i], pos)
		}
		return
	}
	fr.oblig("frame", "frame", "frame", and(fs...), label+": only what the modifies clause names may change (arrays written on this path: "+strings.Join(names, " ")+"; GOVC_FRAME_SPLIT=1 reports them one by one)", pos)
}

func (fr *Frame) checkFrame(ret *ssa.Return, h Heap) {
	if !fr.frameActive() {
		return
	}
	fr.frameOblig("at return", h, ret.Pos())
}

// bindEntryParams binds parameter names to their entry values (parameters are SSA values: immutable).
func (fr *Frame) bindEntryParams(env *SEnv) {
	fr.bindParams(env)
}

// markViaContract: which functions under contract are called, by a verified unit, through their contract.
func (p *Program) markViaContract() {
	seen := map[*ssa.Function]bool{}
	var walk func(fn *ssa.Function)
	walk = func(fn *ssa.Function) {
		if fn == nil || seen[fn] {
			return
		}
		seen[fn] = true
		for _, b := range fn.Blocks {
			for _, in := range b.Instrs {
				ci, ok := in.(ssa.CallInstruction)
				if !ok {
					continue
				}
				if _, isGo := in.(*ssa.Go); isGo {
					continue // a started goroutine's effects are the protocol layer's business, not a frame
				}
				callee := ci.Common().StaticCallee()
				if callee == nil {
					continue
				}
				if fc := p.contractFor(callee); fc != nil {
					if fc.Inline {
						walk(callee)
					} else if !fc.Trusted {
						fc.ViaContract = true
					}
				}
			}
		}
		for _, af := range fn.AnonFuncs {
			walk(af)
		}
	}
	for _, fc := range p.Contracts.Funcs {
		if fc.Trusted || fc.Functype {
			continue
		}
		walk(p.findFunc(fc))
	}
}
