package main

import (
	"fmt"
	"go/token"
	"go/types"
	"strings"

	"golang.org/x/tools/go/ssa"
)

func (fr *Frame) addrOf(v ssa.Value) *Addr {
	x := fr.val(v)
	if x.A == nil {
		if x.T != "" {
			if p, ok := v.Type().Underlying().(*types.Pointer); ok {
				return &Addr{Base: x.T, T: p.Elem()}
			}
		}
		panic(genErr(fmt.Sprintf("value %s has no address form", v.Name())))
	}
	return x.A
}

// to64 converts an integer term of type t to a 64-bit index term (sign- or zero-extended).
func (fr *Frame) to64(term string, t types.Type) string {
	w, signed, ok := intInfo(t)
	if !ok {
		panic(genErr("index of non-integer type " + t.String()))
	}
	if w == 64 || fr.g.intMode {
		return term
	}
	if signed {
		return fmt.Sprintf("((_ sign_extend %d) %s)", 64-w, term)
	}
	return fmt.Sprintf("((_ zero_extend %d) %s)", 64-w, term)
}

func (fr *Frame) nilCheck(a *Addr, pos token.Pos, what string) {
	if a.Kind == 0 && a.Base != "" && !strings.HasPrefix(a.Base, "glob$") {
		fr.oblig("nil", "safety", "", fmt.Sprintf("(not (= %s 0))", a.Base), "nil dereference: "+what, pos)
	}
}

func (fr *Frame) instr(in ssa.Instruction, h Heap) Heap {
	g := fr.g
	fr.curInstr = in
	switch x := in.(type) {
	case *ssa.DebugRef:
		return h
	case *ssa.Alloc:
		r, nh := fr.freshRef(h, "alloc_"+x.Name())
		el := x.Type().(*types.Pointer).Elem()
		a := &Addr{Base: r, T: el}
		fr.vals[x] = &Val{T: r, A: a}
		if fr.top && (!x.Heap || finalCell(x)) {
			fr.private = append(fr.private, privAlloc{ref: r, t: el})
		}
		// ghost state of a protocol instance starts at zero (nobody holds a role of a fresh object)
		if nt, ok := el.(*types.Named); ok && nt.Obj().Pkg() != nil {
			for _, pr := range g.P.Contracts.Protocols {
				if pr.Struct != nt.Obj().Name() || pr.PkgPath != nt.Obj().Pkg().Path() {
					continue
				}
				env := fr.newSpecEnv(nh, nh)
				for _, gn := range pr.Ghosts {
					if gh := g.P.Contracts.Ghosts[gn]; gh != nil {
						name, srt, _, _ := env.ghostName(gh)
						fr.assume(fmt.Sprintf("(= (select %s %s) %s)", g.heapArr(nh, name, srt), r, g.ilit(0)), "ghost "+gn+" of a freshly allocated "+pr.Struct+" is zero")
					}
				}
			}
		}
		// zero-initialise
		if at, ok := el.Underlying().(*types.Array); ok {
			name, srt := g.elemArrName(at.Elem())
			arr := g.heapArr(nh, name, srt)
			nh[name] = g.define(name, srt, fmt.Sprintf("(store %s %s %s)", arr, r, g.zero(el)))
			return nh
		}
		return g.store(nh, a, g.zero(el))
	case *ssa.FieldAddr:
		base := fr.addrOf(x.X)
		if len(base.Sels) == 0 && base.Kind == 0 {
			fr.nilCheck(base, x.Pos(), x.String())
		}
		st := x.X.Type().Underlying().(*types.Pointer).Elem()
		fr.vals[x] = &Val{A: base.extend(Sel{Field: x.Field, StructT: st})}
		return h
	case *ssa.Field:
		sv := fr.val(x.X)
		st := x.X.Type()
		fr.vals[x] = fr.wrap(g.define(fr.prefix+x.Name(), g.sortOf(x.Type()), g.getPath(sv.T, st, []Sel{{Field: x.Field, StructT: st}})), x.Type())
		return h
	case *ssa.IndexAddr:
		idx := fr.to64(fr.val(x.Index).T, x.Index.Type())
		switch t := x.X.Type().Underlying().(type) {
		case *types.Slice:
			sv := fr.val(x.X).T
			fr.oblig("bounds", "safety", "", g.inRange(idx, "(s_len "+sv+")"), "index in range: "+x.String(), x.Pos())
			abs := g.define(fr.prefix+"ix", g.IS(), g.iadd("(s_off "+sv+")", idx))
			fr.vals[x] = &Val{A: &Addr{Kind: 1, Base: fmt.Sprintf("(s_arr %s)", sv), Idx: abs, T: t.Elem()}}
		case *types.Pointer:
			at := t.Elem().Underlying().(*types.Array)
			base := fr.addrOf(x.X)
			fr.oblig("bounds", "safety", "", g.inRange(idx, g.ilit(at.Len())), "index in range: "+x.String(), x.Pos())
			if base.Kind == 0 && len(base.Sels) == 0 {
				// array object rooted in the element heap
				fr.nilCheck(base, x.Pos(), x.String())
				fr.vals[x] = &Val{A: &Addr{Kind: 1, Base: base.Base, Idx: idx, T: at.Elem()}}
			} else {
				fr.vals[x] = &Val{A: base.extend(Sel{Index: idx, ArrT: at})}
			}
		default:
			panic(genErr("IndexAddr on " + x.X.Type().String()))
		}
		return h
	case *ssa.Index:
		idx := fr.to64(fr.val(x.Index).T, x.Index.Type())
		xv := fr.val(x.X).T
		switch t := x.X.Type().Underlying().(type) {
		case *types.Array:
			fr.oblig("bounds", "safety", "", g.inRange(idx, g.ilit(t.Len())), "index in range: "+x.String(), x.Pos())
			fr.vals[x] = fr.wrap(g.define(fr.prefix+x.Name(), g.sortOf(x.Type()), fmt.Sprintf("(select %s %s)", xv, idx)), x.Type())
		case *types.Basic: // string
			fr.oblig("bounds", "safety", "", g.inRange(idx, "(slen "+xv+")"), "index in range: "+x.String(), x.Pos())
			fr.vals[x] = &Val{T: g.define(fr.prefix+x.Name(), g.byteSort(), fmt.Sprintf("(sat %s %s)", xv, idx))}
		default:
			panic(genErr("Index on " + x.X.Type().String()))
		}
		return h
	case *ssa.UnOp:
		return fr.unop(x, h)
	case *ssa.Store:
		a := fr.addrOf(x.Addr)
		if a.Kind == 0 && len(a.Sels) == 0 {
			fr.nilCheck(a, x.Pos(), "store")
		}
		v := fr.val(x.Val)
		t := v.T
		if t == "" && v.A != nil {
			if !g.P.opaquePointee(v.A.finalType()) {
				panic(genErr(fmt.Sprintf("interior pointer %s stored to the heap", x.Val.Name())))
			}
			t = g.ptrTerm(v.A)
		}
		return g.store(h, a, t)
	case *ssa.BinOp:
		fr.vals[x] = fr.binop(x)
		return h
	case *ssa.Convert:
		return fr.convert(x, h)
	case *ssa.ChangeType:
		v := fr.val(x.X)
		if v.T != "" && g.sortOf(x.X.Type()) != g.sortOf(x.Type()) {
			// conversion between distinct named struct types with identical underlying types
			// (gen.Alias(ref)): rebuild the value field by field
			if st, ok := x.Type().Underlying().(*types.Struct); ok && !g.isOpaqueStruct(x.Type()) && !g.isOpaqueStruct(x.X.Type()) {
				g.sortOf(x.Type())
				var parts []string
				for i := 0; i < st.NumFields(); i++ {
					parts = append(parts, g.getPath(v.T, x.X.Type(), []Sel{{Field: i, StructT: x.X.Type()}}))
				}
				t := "mk$" + g.structName(x.Type())
				if len(parts) > 0 {
					t = fmt.Sprintf("(%s %s)", t, strings.Join(parts, " "))
				}
				fr.vals[x] = &Val{T: g.define(fr.prefix+x.Name(), g.sortOf(x.Type()), t)}
				return h
			}
		}
		fr.vals[x] = &Val{T: v.T, A: v.A, Tup: v.Tup}
		return h
	case *ssa.MultiConvert:
		panic(genErr("MultiConvert unsupported"))
	case *ssa.ChangeInterface:
		fr.vals[x] = fr.val(x.X)
		return h
	case *ssa.MakeInterface:
		v := fr.val(x.X)
		t := v.T
		if t == "" && v.A != nil {
			t = g.ptrTerm(v.A)
		}
		fr.vals[x] = &Val{T: g.define(fr.prefix+x.Name(), "Iface", fmt.Sprintf("(mk_iface %s %s)", g.typeTag(x.X.Type()), g.box(x.X.Type(), t)))}
		return h
	case *ssa.TypeAssert:
		return fr.typeAssert(x, h)
	case *ssa.MakeSlice:
		ln := fr.to64(fr.val(x.Len).T, x.Len.Type())
		cp := fr.to64(fr.val(x.Cap).T, x.Cap.Type())
		fr.oblig("makeslice", "safety", "", and(g.ile(g.ilit(0), ln), g.ile(ln, cp), g.ile(cp, g.maxLen())), "make: len/cap in range", x.Pos())
		r, nh := fr.freshRef(h, "mkslice_"+x.Name())
		el := x.Type().Underlying().(*types.Slice).Elem()
		name, srt := g.elemArrName(el)
		arr := g.heapArr(nh, name, srt)
		nh[name] = g.define(name, srt, fmt.Sprintf("(store %s %s %s)", arr, r, g.constArray("(Array "+g.IS()+" "+g.sortOf(el)+")", g.zero(el))))
		fr.vals[x] = &Val{T: g.define(fr.prefix+x.Name(), "Slice", fmt.Sprintf("(mk_slice %s %s %s %s)", r, g.ilit(0), ln, cp))}
		fr.heapOutCur = nh
		fr.allocEvent(x, ln, el)
		return nh
	case *ssa.MakeMap:
		r, nh := fr.freshRef(h, "mkmap_"+x.Name())
		mt := x.Type().Underlying().(*types.Map)
		d, _, c := g.mapArrNames(mt)
		darr := g.heapArr(nh, d, g.heapSort[d])
		nh[d] = g.define(d, g.heapSort[d], fmt.Sprintf("(store %s %s ((as const (Array %s Bool)) false))", darr, r, g.sortOf(mt.Key())))
		carr := g.heapArr(nh, c, g.heapSort[c])
		nh[c] = g.define(c, g.heapSort[c], fmt.Sprintf("(store %s %s %s)", carr, r, g.ilit(0)))
		fr.vals[x] = &Val{T: r}
		return nh
	case *ssa.MakeChan:
		r, nh := fr.freshRef(h, "mkchan_"+x.Name())
		fr.vals[x] = &Val{T: r}
		return nh
	case *ssa.MakeClosure:
		r, nh := fr.freshRef(h, "closure_"+x.Name())
		fr.vals[x] = &Val{T: r}
		return nh
	case *ssa.Lookup:
		return fr.lookup(x, h)
	case *ssa.MapUpdate:
		return fr.mapUpdate(x, h)
	case *ssa.Slice:
		return fr.sliceOp(x, h)
	case *ssa.Extract:
		tv := fr.val(x.Tuple)
		if tv.Tup == nil || x.Index >= len(tv.Tup) {
			panic(genErr("extract from non-tuple " + x.Tuple.Name()))
		}
		fr.vals[x] = tv.Tup[x.Index]
		return h
	case *ssa.Range:
		if _, isMap := x.X.Type().Underlying().(*types.Map); isMap {
			name := fr.seenName(x)
			nh := h.clone()
			mt := x.X.Type().Underlying().(*types.Map)
			nh[name] = fmt.Sprintf("((as const (Array %s Bool)) false)", g.sortOf(mt.Key()))
			fr.vals[x] = &Val{T: "0"}
			return nh
		}
		// range over string: position counter kept in a ghost cell
		panic(genErr("range over string is outside the subset"))
	case *ssa.Next:
		return fr.next(x, h)
	case *ssa.Call:
		return fr.call(x, x.Common(), h)
	case *ssa.Go:
		for _, a := range x.Common().Args {
			fr.val(a)
		}
		fr.goStmt(x, h)
		return h
	case *ssa.Defer:
		fr.defers = append(fr.defers, x)
		return h
	case *ssa.RunDefers:
		return fr.runDefers(x, h)
	case *ssa.Panic:
		if fr.fc == nil || !fr.fc.MayPanic {
			// explicit panic(...) statements form an obligation of their own (not silenced by no_safety)
			fr.oblig("panic", "nopanic", "nopanic", "false", "explicit panic reachable: "+x.String(), x.Pos())
		}
		return h
	case *ssa.Return:
		var rs []*Val
		for _, r := range x.Results {
			rs = append(rs, fr.val(r))
		}
		fr.rets = append(fr.rets, retInfo{guard: fr.curGuard, results: rs, heap: h})
		// postconditions describe normal returns; the return of the Recover block (after a deferred
		// handler recovered a panic) is covered by the handler's own contract
		if fr.top && !(fr.fn.Recover != nil && x.Block() == fr.fn.Recover) {
			fr.checkEnsures(x, rs, h)
		}
		return h
	case *ssa.If, *ssa.Jump:
		return h
	case *ssa.Select:
		// nondeterministic choice; received values unconstrained
		sv := fr.symbolic("select_"+x.Name(), x.Type())
		fr.vals[x] = sv
		if len(sv.Tup) > 0 {
			// the chosen case index is one of the cases (or -1 for a non-blocking select)
			lo := int64(0)
			if !x.Blocking {
				lo = -1
			}
			idx := sv.Tup[0].T
			fr.assume(and(g.ile(g.ilit(lo), idx), g.ilt(idx, g.ilit(int64(len(x.States))))), "select chooses one of its cases")
			// ghost: the value taken by the chosen receive case is recorded as received from its channel
			j := 0
			for k, st := range x.States {
				if st.Dir == types.SendOnly {
					el := st.Chan.Type().Underlying().(*types.Chan).Elem()
					h = fr.recordSend(h, fr.val(st.Chan).T, fr.coerceVal(st.Send, el), el, fmt.Sprintf("(= %s %s)", idx, g.ilit(int64(k))))
					continue
				}
				if st.Dir != types.RecvOnly {
					continue
				}
				if 2+j < len(sv.Tup) {
					el := st.Chan.Type().Underlying().(*types.Chan).Elem()
					h = fr.recordReceive(h, fr.val(st.Chan).T, sv.Tup[2+j].T, el, fmt.Sprintf("(= %s %s)", idx, g.ilit(int64(k))))
				}
				j++
			}
		}
		return h
	case *ssa.Send:
		if ct, ok := x.Chan.Type().Underlying().(*types.Chan); ok {
			h = fr.recordSend(h, fr.val(x.Chan).T, fr.coerceVal(x.X, ct.Elem()), ct.Elem(), "true")
		}
		return h
	case *ssa.SliceToArrayPointer:
		panic(genErr("SliceToArrayPointer unsupported"))
	}
	panic(genErr(fmt.Sprintf("unsupported instruction %T: %s", in, in)))
}

// allocEvent: "at make assert" clauses of the unit's contract, checked at every make([]T, n, c)
func (fr *Frame) allocEvent(x ssa.Instruction, n string, el types.Type) {
	if !fr.top || fr.fc == nil || len(fr.fc.AtMake) == 0 {
		return
	}
	ms, ok := x.(*ssa.MakeSlice)
	if !ok {
		return
	}
	h := fr.heapOutCur
	env := fr.newSpecEnv(h, fr.entry)
	fr.bindParams(env)
	env.locals = func(name string) *SVal { return fr.localBefore(name, x, h) }
	intT := types.Typ[types.Int]
	env.vars["n"] = &SVal{V: &Val{T: n}, T: intT}
	env.vars["c"] = &SVal{V: &Val{T: fr.to64(fr.val(ms.Cap).T, ms.Cap.Type())}, T: intT}
	for i, cl := range fr.fc.AtMake {
		env.where = fmt.Sprintf("%s:%d", cl.File, cl.Line)
		label := cl.Label
		if label == "" {
			label = fmt.Sprintf("make%d", i+1)
		}
		fr.oblig("callsite", "", "at.make."+label, env.boolTerm(cl.Expr), cl.Src, x.Pos())
	}
}

func (fr *Frame) unop(x *ssa.UnOp, h Heap) Heap {
	g := fr.g
	switch x.Op {
	case token.MUL: // load
		// frozen package-level variables read as constants
		if gl, ok := x.X.(*ssa.Global); ok && g.P.isFrozenGlobal(gl) {
			fr.vals[x] = fr.wrap(g.P.frozenConst(g, gl), x.Type())
			return h
		}
		a := fr.addrOf(x.X)
		if a.Kind == 0 && len(a.Sels) == 0 {
			fr.nilCheck(a, x.Pos(), x.String())
		}
		t := g.define(fr.prefix+x.Name(), g.sortOf(x.Type()), g.load(h, a))
		fr.vals[x] = fr.wrap(t, x.Type())
		fr.guardedLoad(x, h)
		if f := fr.typeFacts(t, x.Type(), h); f != "true" {
			fr.assume(f, "type facts of loaded value")
		}
		return h
	case token.NOT:
		fr.vals[x] = &Val{T: not(fr.val(x.X).T)}
	case token.SUB:
		if isFloat(x.Type()) {
			fr.vals[x] = &Val{T: fr.uf("fneg", x.Type(), x.X)}
		} else {
			fr.vals[x] = &Val{T: fr.negate(x, fr.val(x.X).T)}
		}
	case token.XOR:
		fr.vals[x] = &Val{T: fr.bitnot(x, fr.val(x.X).T)}
	case token.ARROW:
		fr.vals[x] = fr.symbolic("recv_"+x.Name(), x.Type())
		if ct, ok := x.X.Type().Underlying().(*types.Chan); ok {
			rv := fr.vals[x]
			if x.CommaOk && len(rv.Tup) == 2 {
				h = fr.recordReceive(h, fr.val(x.X).T, rv.Tup[0].T, ct.Elem(), rv.Tup[1].T)
			} else if rv.T != "" {
				h = fr.recordReceive(h, fr.val(x.X).T, rv.T, ct.Elem(), "true")
			}
		}
	default:
		panic(genErr("unop " + x.Op.String()))
	}
	return h
}

// uf applies an uninterpreted function named by op and operand sorts.
func (fr *Frame) uf(op string, res types.Type, args ...ssa.Value) string {
	g := fr.g
	var sorts, terms []string
	for _, a := range args {
		sorts = append(sorts, g.sortOf(a.Type()))
		terms = append(terms, fr.val(a).T)
	}
	name := "uf$" + op + "$" + sanitize(strings.Join(sorts, "_"))
	g.decl("fun:"+name, fmt.Sprintf("(declare-fun %s (%s) %s)", name, strings.Join(sorts, " "), g.sortOf(res)))
	return fmt.Sprintf("(%s %s)", name, strings.Join(terms, " "))
}

func opName(op token.Token) string {
	switch op {
	case token.ADD:
		return "add"
	case token.SUB:
		return "sub"
	case token.MUL:
		return "mul"
	case token.QUO:
		return "div"
	case token.LSS:
		return "lt"
	case token.LEQ:
		return "le"
	case token.GTR:
		return "gt"
	case token.GEQ:
		return "ge"
	case token.REM:
		return "rem"
	}
	return sanitize(op.String())
}

// shiftTerm implements Go shift semantics: counts >= width give 0 (or sign fill).
func shiftTerm(left, signed bool, w int, x, cnt string, cw int) string {
	// bring count to width w, saturating
	var c string
	switch {
	case cw == w:
		c = cnt
	case cw < w:
		c = fmt.Sprintf("((_ zero_extend %d) %s)", w-cw, cnt)
	default:
		// saturate: if cnt >= w then w else truncate
		c = fmt.Sprintf("(ite (bvuge %s %s) %s ((_ extract %d 0) %s))", cnt, bvInt(int64(w), cw), bvInt(int64(w), w), w-1, cnt)
	}
	// SMT-LIB shifts with count >= width already yield 0 / sign fill
	switch {
	case left:
		return fmt.Sprintf("(bvshl %s %s)", x, c)
	case signed:
		return fmt.Sprintf("(bvashr %s %s)", x, c)
	}
	return fmt.Sprintf("(bvlshr %s %s)", x, c)
}

func convInt(term string, fw int, fsigned bool, tw int) string {
	switch {
	case fw == tw:
		return term
	case fw > tw:
		return fmt.Sprintf("((_ extract %d 0) %s)", tw-1, term)
	case fsigned:
		return fmt.Sprintf("((_ sign_extend %d) %s)", tw-fw, term)
	}
	return fmt.Sprintf("((_ zero_extend %d) %s)", tw-fw, term)
}

func (fr *Frame) typeAssert(x *ssa.TypeAssert, h Heap) Heap {
	g := fr.g
	iv := fr.val(x.X).T
	var ok, v string
	if _, isIface := x.AssertedType.Underlying().(*types.Interface); isIface {
		okc := g.fresh(fr.prefix+"implements", "Bool")
		ok = g.define(fr.prefix+"ok_"+x.Name(), "Bool", fmt.Sprintf("(and %s (not (= (i_tag %s) 0)))", okc, iv))
		// the same dynamic type always answers the same way
		fn := "implements$" + sanitize(typeKey(x.AssertedType))
		g.decl("fun:"+fn, fmt.Sprintf("(declare-fun %s (Int) Bool)", fn))
		g.defs = append(g.defs, fmt.Sprintf("(= %s (%s (i_tag %s)))", okc, fn, iv))
		v = ite(ok, iv, "(mk_iface 0 0)")
	} else {
		ok = g.define(fr.prefix+"ok_"+x.Name(), "Bool", fmt.Sprintf("(= (i_tag %s) %s)", iv, g.typeTag(x.AssertedType)))
		v = g.define(fr.prefix+x.Name(), g.sortOf(x.AssertedType), ite(ok, g.unbox(x.AssertedType, fmt.Sprintf("(i_val %s)", iv)), g.zero(x.AssertedType)))
		if isString(x.AssertedType) {
			// a boxed string is a string: its length is a length (same bound as slices)
			fr.assume(and(g.ile(g.ilit(0), "(slen "+v+")"), g.ile("(slen "+v+")", g.maxLen())), "type facts of asserted string")
		}
	}
	if x.CommaOk {
		fr.vals[x] = &Val{Tup: []*Val{fr.wrap(v, x.AssertedType), {T: ok}}}
	} else {
		fr.oblig("typeassert", "safety", "", ok, "type assertion holds: "+x.String(), x.Pos())
		fr.vals[x] = fr.wrap(v, x.AssertedType)
	}
	return h
}

func (fr *Frame) lookup(x *ssa.Lookup, h Heap) Heap {
	g := fr.g
	if mt, ok := x.X.Type().Underlying().(*types.Map); ok {
		m := fr.val(x.X).T
		k := fr.val(x.Index).T
		fr.guardedUse(x.X, h, false, "map lookup", x)
		d, v, _ := g.mapArrNames(mt)
		dom := g.define(fr.prefix+"has_"+x.Name(), "Bool", fmt.Sprintf("(and (not (= %s 0)) (select (select %s %s) %s))", m, g.heapArr(h, d, g.heapSort[d]), m, k))
		val := g.define(fr.prefix+x.Name(), g.sortOf(mt.Elem()), ite(dom, fmt.Sprintf("(select (select %s %s) %s)", g.heapArr(h, v, g.heapSort[v]), m, k), g.zero(mt.Elem())))
		if f := fr.typeFacts(val, mt.Elem(), h); f != "true" {
			fr.assume(f, "type facts of map value")
		}
		if x.CommaOk {
			fr.vals[x] = &Val{Tup: []*Val{fr.wrap(val, mt.Elem()), {T: dom}}}
		} else {
			fr.vals[x] = fr.wrap(val, mt.Elem())
		}
		return h
	}
	// string index
	idx := fr.to64(fr.val(x.Index).T, x.Index.Type())
	s := fr.val(x.X).T
	fr.oblig("bounds", "safety", "", g.inRange(idx, "(slen "+s+")"), "string index in range", x.Pos())
	fr.vals[x] = &Val{T: fmt.Sprintf("(sat %s %s)", s, idx)}
	return h
}

func (fr *Frame) mapUpdate(x *ssa.MapUpdate, h Heap) Heap {
	g := fr.g
	mt := x.Map.Type().Underlying().(*types.Map)
	m := fr.val(x.Map).T
	k := fr.val(x.Key).T
	vv := fr.val(x.Value)
	v := vv.T
	if v == "" && vv.A != nil {
		v = g.ptrTerm(vv.A)
	}
	fr.oblig("nilmap", "safety", "", fmt.Sprintf("(not (= %s 0))", m), "assignment to entry in nil map", x.Pos())
	fr.guardedUse(x.Map, h, true, "map update", x)
	return fr.mapStore(h, mt, m, k, v)
}

func (fr *Frame) next(x *ssa.Next, h Heap) Heap {
	g := fr.g
	r, ok := x.Iter.(*ssa.Range)
	if !ok || x.IsString {
		panic(genErr("Next over string is outside the subset"))
	}
	mt := r.X.Type().Underlying().(*types.Map)
	m := fr.val(r.X).T
	fr.guardedUse(r.X, h, false, "map iteration step", x)
	d, va, _ := g.mapArrNames(mt)
	seenName := fr.seenName(r)
	seen := g.heapArr(h, seenName, g.heapSort[seenName])
	okv := g.fresh(fr.prefix+"next_ok", "Bool")
	k := g.fresh(fr.prefix+"next_k", g.sortOf(mt.Key()))
	dom := fmt.Sprintf("(select %s %s)", g.heapArr(h, d, g.heapSort[d]), m)
	val := fmt.Sprintf("(select (select %s %s) %s)", g.heapArr(h, va, g.heapSort[va]), m, k)
	ks := g.sortOf(mt.Key())
	fr.assume(fmt.Sprintf("(=> %s (and (not (= %s 0)) (select %s %s) (not (select %s %s))))", okv, m, dom, k, seen, k), "map range yields an unseen present key")
	fr.assume(fmt.Sprintf("(=> (not %s) (or (= %s 0) (forall ((kk %s)) (! (=> (select %s kk) (select %s kk)) :pattern ((select %s kk))))))", okv, m, ks, dom, seen, dom), "map range ends when every present key was seen")
	nh := h.clone()
	nh[seenName] = g.define(seenName, g.heapSort[seenName], fmt.Sprintf("(ite %s (store %s %s true) %s)", okv, seen, k, seen))
	v := g.define(fr.prefix+"next_v", g.sortOf(mt.Elem()), val)
	if f := fr.typeFacts(v, mt.Elem(), h); f != "true" {
		fr.assume(f, "type facts of map value")
	}
	fr.vals[x] = &Val{Tup: []*Val{{T: okv}, fr.wrap(k, mt.Key()), fr.wrap(v, mt.Elem())}}
	return nh
}

func (fr *Frame) runDefers(x *ssa.RunDefers, h Heap) Heap {
	// deferred calls in LIFO order; only those registered on every path are modelled precisely,
	// the others (conditional defers) are treated the same way: sound for no-op callees, and any
	// callee with effects is applied through its contract (or havoc).
	for i := len(fr.defers) - 1; i >= 0; i-- {
		d := fr.defers[i]
		h = fr.call(nil, d.Common(), h)
	}
	return h
}

// rcvName: ghost record of the values received from each channel, per element sort.
func (g *Gen) rcvName(el types.Type) (string, string) {
	es := g.sortOf(el)
	name := "RCV$" + sanitize(es)
	srt := "(Array Int (Array " + es + " Bool))"
	g.heapSort[name] = srt
	return name, srt
}

// rcvCountName: ghost count of completed receives per channel (a receive from a closed channel counts).
func (g *Gen) rcvCountName() (string, string) {
	srt := "(Array Int " + g.sortOf(types.Typ[types.Int]) + ")"
	g.heapSort["RCVN$"] = srt
	return "RCVN$", srt
}

func (fr *Frame) recordReceive(h Heap, ch, v string, el types.Type, cond string) Heap {
	g := fr.g
	{
		cn, cs := g.rcvCountName()
		ccur := g.heapArr(h, cn, cs)
		cupd := fmt.Sprintf("(store %s %s %s)", ccur, ch, g.iadd(fmt.Sprintf("(select %s %s)", ccur, ch), g.ilit(1)))
		if cond != "true" {
			cupd = ite(cond, cupd, ccur)
		}
		h = h.clone()
		h[cn] = g.define(cn, cs, cupd)
	}
	if v == "" {
		return h
	}
	name, srt := g.rcvName(el)
	cur := g.heapArr(h, name, srt)
	nh := h.clone()
	upd := fmt.Sprintf("(store %s %s (store (select %s %s) %s true))", cur, ch, cur, ch, v)
	if cond != "true" {
		upd = ite(cond, upd, cur)
	}
	nh[name] = g.define(name, srt, upd)
	return nh
}

func (fr *Frame) coerceVal(v ssa.Value, to types.Type) string {
	return fr.val(v).T
}

// sndName: ghost record of the values sent on each channel (per element sort) and the number of sends.
func (g *Gen) sndName(el types.Type) (string, string) {
	es := g.sortOf(el)
	name := "SND$" + sanitize(es)
	srt := "(Array Int (Array " + es + " Bool))"
	g.heapSort[name] = srt
	return name, srt
}

// closedName: ghost count of close(ch) per channel.
func (g *Gen) closedName() (string, string) {
	srt := "(Array Int " + g.sortOf(types.Typ[types.Int]) + ")"
	g.heapSort["CLOSED$"] = srt
	return "CLOSED$", srt
}

func (g *Gen) sndCountName() (string, string) {
	srt := "(Array Int " + g.sortOf(types.Typ[types.Int]) + ")"
	g.heapSort["SNDN$"] = srt
	return "SNDN$", srt
}

func (fr *Frame) recordSend(h Heap, ch, v string, el types.Type, cond string) Heap {
	g := fr.g
	if v == "" {
		return h
	}
	name, srt := g.sndName(el)
	cur := g.heapArr(h, name, srt)
	nh := h.clone()
	upd := fmt.Sprintf("(store %s %s (store (select %s %s) %s true))", cur, ch, cur, ch, v)
	cn, cs := g.sndCountName()
	ccur := g.heapArr(h, cn, cs)
	one := g.ilit(1)
	cupd := fmt.Sprintf("(store %s %s %s)", ccur, ch, g.iadd(fmt.Sprintf("(select %s %s)", ccur, ch), one))
	if cond != "true" {
		upd = ite(cond, upd, cur)
		cupd = ite(cond, cupd, ccur)
	}
	nh[name] = g.define(name, srt, upd)
	nh[cn] = g.define(cn, cs, cupd)
	return nh
}
