package main

import (
	"fmt"
	"go/token"
	"go/types"
	"strings"

	"golang.org/x/tools/go/ssa"
)

func (fr *Frame) addrOf(v ssa.Value) *Addr {
	x := fr.val(v)
	if x.A == nil {
		if x.T != "" {
			if p, ok := v.Type().Underlying().(*types.Pointer); ok {
				return &Addr{Base: x.T, T: p.Elem()}
			}
		}
		panic(genErr(fmt.Sprintf("value %s has no address form", v.Name())))
	}
	return x.A
}

// to64 converts an integer term of type t to a 64-bit index term (sign- or zero-extended).
func (fr *Frame) to64(term string, t types.Type) string {
	w, signed, ok := intInfo(t)
	if !ok {
		panic(genErr("index of non-integer type " + t.String()))
	}
	if w == 64 {
		return term
	}
	if signed {
		return fmt.Sprintf("((_ sign_extend %d) %s)", 64-w, term)
	}
	return fmt.Sprintf("((_ zero_extend %d) %s)", 64-w, term)
}

func (fr *Frame) nilCheck(a *Addr, pos token.Pos, what string) {
	if a.Kind == 0 && a.Base != "" && !strings.HasPrefix(a.Base, "glob$") {
		fr.oblig("nil", "safety", "", fmt.Sprintf("(not (= %s 0))", a.Base), "nil dereference: "+what, pos)
	}
}

func (fr *Frame) instr(in ssa.Instruction, h Heap) Heap {
	g := fr.g
	switch x := in.(type) {
	case *ssa.DebugRef:
		return h
	case *ssa.Alloc:
		r, nh := fr.freshRef(h, "alloc_"+x.Name())
		el := x.Type().(*types.Pointer).Elem()
		a := &Addr{Base: r, T: el}
		fr.vals[x] = &Val{T: r, A: a}
		// zero-initialise
		if at, ok := el.Underlying().(*types.Array); ok {
			name, srt := g.elemArrName(at.Elem())
			arr := g.heapArr(nh, name, srt)
			nh[name] = g.define(name, srt, fmt.Sprintf("(store %s %s %s)", arr, r, g.zero(el)))
			return nh
		}
		return g.store(nh, a, g.zero(el))
	case *ssa.FieldAddr:
		base := fr.addrOf(x.X)
		if len(base.Sels) == 0 && base.Kind == 0 {
			fr.nilCheck(base, x.Pos(), x.String())
		}
		st := x.X.Type().Underlying().(*types.Pointer).Elem()
		fr.vals[x] = &Val{A: base.extend(Sel{Field: x.Field, StructT: st})}
		return h
	case *ssa.Field:
		sv := fr.val(x.X)
		st := x.X.Type()
		fr.vals[x] = fr.wrap(g.define(fr.prefix+x.Name(), g.sortOf(x.Type()), g.getPath(sv.T, st, []Sel{{Field: x.Field, StructT: st}})), x.Type())
		return h
	case *ssa.IndexAddr:
		idx := fr.to64(fr.val(x.Index).T, x.Index.Type())
		switch t := x.X.Type().Underlying().(type) {
		case *types.Slice:
			sv := fr.val(x.X).T
			fr.oblig("bounds", "safety", "", fmt.Sprintf("(bvult %s (s_len %s))", idx, sv), "index in range: "+x.String(), x.Pos())
			abs := g.define(fr.prefix+"ix", idxSort, fmt.Sprintf("(bvadd (s_off %s) %s)", sv, idx))
			fr.vals[x] = &Val{A: &Addr{Kind: 1, Base: fmt.Sprintf("(s_arr %s)", sv), Idx: abs, T: t.Elem()}}
		case *types.Pointer:
			at := t.Elem().Underlying().(*types.Array)
			base := fr.addrOf(x.X)
			fr.oblig("bounds", "safety", "", fmt.Sprintf("(bvult %s %s)", idx, bvInt(at.Len(), 64)), "index in range: "+x.String(), x.Pos())
			if base.Kind == 0 && len(base.Sels) == 0 {
				// array object rooted in the element heap
				fr.nilCheck(base, x.Pos(), x.String())
				fr.vals[x] = &Val{A: &Addr{Kind: 1, Base: base.Base, Idx: idx, T: at.Elem()}}
			} else {
				fr.vals[x] = &Val{A: base.extend(Sel{Index: idx, ArrT: at})}
			}
		default:
			panic(genErr("IndexAddr on " + x.X.Type().String()))
		}
		return h
	case *ssa.Index:
		idx := fr.to64(fr.val(x.Index).T, x.Index.Type())
		xv := fr.val(x.X).T
		switch t := x.X.Type().Underlying().(type) {
		case *types.Array:
			fr.oblig("bounds", "safety", "", fmt.Sprintf("(bvult %s %s)", idx, bvInt(t.Len(), 64)), "index in range: "+x.String(), x.Pos())
			fr.vals[x] = fr.wrap(g.define(fr.prefix+x.Name(), g.sortOf(x.Type()), fmt.Sprintf("(select %s %s)", xv, idx)), x.Type())
		case *types.Basic: // string
			fr.oblig("bounds", "safety", "", fmt.Sprintf("(bvult %s (slen %s))", idx, xv), "index in range: "+x.String(), x.Pos())
			fr.vals[x] = &Val{T: g.define(fr.prefix+x.Name(), "(_ BitVec 8)", fmt.Sprintf("(sat %s %s)", xv, idx))}
		default:
			panic(genErr("Index on " + x.X.Type().String()))
		}
		return h
	case *ssa.UnOp:
		return fr.unop(x, h)
	case *ssa.Store:
		a := fr.addrOf(x.Addr)
		if a.Kind == 0 && len(a.Sels) == 0 {
			fr.nilCheck(a, x.Pos(), "store")
		}
		v := fr.val(x.Val)
		t := v.T
		if t == "" && v.A != nil {
			if !g.P.opaquePointee(v.A.finalType()) {
				panic(genErr(fmt.Sprintf("interior pointer %s stored to the heap", x.Val.Name())))
			}
			t = g.ptrTerm(v.A)
		}
		return g.store(h, a, t)
	case *ssa.BinOp:
		fr.vals[x] = fr.binop(x)
		return h
	case *ssa.Convert:
		return fr.convert(x, h)
	case *ssa.ChangeType:
		v := fr.val(x.X)
		fr.vals[x] = &Val{T: v.T, A: v.A, Tup: v.Tup}
		return h
	case *ssa.MultiConvert:
		panic(genErr("MultiConvert unsupported"))
	case *ssa.ChangeInterface:
		fr.vals[x] = fr.val(x.X)
		return h
	case *ssa.MakeInterface:
		v := fr.val(x.X)
		t := v.T
		if t == "" && v.A != nil {
			t = g.ptrTerm(v.A)
		}
		fr.vals[x] = &Val{T: g.define(fr.prefix+x.Name(), "Iface", fmt.Sprintf("(mk_iface %s %s)", g.typeTag(x.X.Type()), g.box(x.X.Type(), t)))}
		return h
	case *ssa.TypeAssert:
		return fr.typeAssert(x, h)
	case *ssa.MakeSlice:
		ln := fr.to64(fr.val(x.Len).T, x.Len.Type())
		cp := fr.to64(fr.val(x.Cap).T, x.Cap.Type())
		fr.oblig("makeslice", "safety", "", and(fmt.Sprintf("(bvsle #x0000000000000000 %s)", ln), fmt.Sprintf("(bvsle %s %s)", ln, cp), fmt.Sprintf("(bvsle %s #x0000ffffffffffff)", cp)), "make: len/cap in range", x.Pos())
		r, nh := fr.freshRef(h, "mkslice_"+x.Name())
		el := x.Type().Underlying().(*types.Slice).Elem()
		name, srt := g.elemArrName(el)
		arr := g.heapArr(nh, name, srt)
		nh[name] = g.define(name, srt, fmt.Sprintf("(store %s %s ((as const (Array %s %s)) %s))", arr, r, idxSort, g.sortOf(el), g.zero(el)))
		fr.vals[x] = &Val{T: g.define(fr.prefix+x.Name(), "Slice", fmt.Sprintf("(mk_slice %s #x0000000000000000 %s %s)", r, ln, cp))}
		fr.allocEvent(x, ln, el)
		return nh
	case *ssa.MakeMap:
		r, nh := fr.freshRef(h, "mkmap_"+x.Name())
		mt := x.Type().Underlying().(*types.Map)
		d, _, c := g.mapArrNames(mt)
		darr := g.heapArr(nh, d, g.heapSort[d])
		nh[d] = g.define(d, g.heapSort[d], fmt.Sprintf("(store %s %s ((as const (Array %s Bool)) false))", darr, r, g.sortOf(mt.Key())))
		carr := g.heapArr(nh, c, g.heapSort[c])
		nh[c] = g.define(c, g.heapSort[c], fmt.Sprintf("(store %s %s #x0000000000000000)", carr, r))
		fr.vals[x] = &Val{T: r}
		return nh
	case *ssa.MakeChan:
		r, nh := fr.freshRef(h, "mkchan_"+x.Name())
		fr.vals[x] = &Val{T: r}
		return nh
	case *ssa.MakeClosure:
		r, nh := fr.freshRef(h, "closure_"+x.Name())
		fr.vals[x] = &Val{T: r}
		return nh
	case *ssa.Lookup:
		return fr.lookup(x, h)
	case *ssa.MapUpdate:
		return fr.mapUpdate(x, h)
	case *ssa.Slice:
		return fr.sliceOp(x, h)
	case *ssa.Extract:
		tv := fr.val(x.Tuple)
		if tv.Tup == nil || x.Index >= len(tv.Tup) {
			panic(genErr("extract from non-tuple " + x.Tuple.Name()))
		}
		fr.vals[x] = tv.Tup[x.Index]
		return h
	case *ssa.Range:
		if _, isMap := x.X.Type().Underlying().(*types.Map); isMap {
			name := fr.seenName(x)
			nh := h.clone()
			mt := x.X.Type().Underlying().(*types.Map)
			nh[name] = fmt.Sprintf("((as const (Array %s Bool)) false)", g.sortOf(mt.Key()))
			fr.vals[x] = &Val{T: "0"}
			return nh
		}
		// range over string: position counter kept in a ghost cell
		panic(genErr("range over string is outside the subset"))
	case *ssa.Next:
		return fr.next(x, h)
	case *ssa.Call:
		return fr.call(x, x.Common(), h)
	case *ssa.Go:
		for _, a := range x.Common().Args {
			fr.val(a)
		}
		return h
	case *ssa.Defer:
		fr.defers = append(fr.defers, x)
		return h
	case *ssa.RunDefers:
		return fr.runDefers(x, h)
	case *ssa.Panic:
		if fr.fc == nil || !fr.fc.MayPanic {
			fr.oblig("panic", "safety", "", "false", "explicit panic reachable: "+x.String(), x.Pos())
		}
		return h
	case *ssa.Return:
		var rs []*Val
		for _, r := range x.Results {
			rs = append(rs, fr.val(r))
		}
		fr.rets = append(fr.rets, retInfo{guard: fr.curGuard, results: rs, heap: h})
		if fr.top {
			fr.checkEnsures(x, rs, h)
		}
		return h
	case *ssa.If, *ssa.Jump:
		return h
	case *ssa.Select:
		// nondeterministic choice; received values unconstrained
		fr.vals[x] = fr.symbolic("select_"+x.Name(), x.Type())
		return h
	case *ssa.Send:
		return h
	case *ssa.SliceToArrayPointer:
		panic(genErr("SliceToArrayPointer unsupported"))
	}
	panic(genErr(fmt.Sprintf("unsupported instruction %T: %s", in, in)))
}

func (fr *Frame) allocEvent(x ssa.Instruction, n string, el types.Type) {}

func (fr *Frame) unop(x *ssa.UnOp, h Heap) Heap {
	g := fr.g
	switch x.Op {
	case token.MUL: // load
		// frozen package-level variables read as constants
		if gl, ok := x.X.(*ssa.Global); ok && g.P.isFrozenGlobal(gl) {
			fr.vals[x] = fr.wrap(g.P.frozenConst(g, gl), x.Type())
			return h
		}
		a := fr.addrOf(x.X)
		if a.Kind == 0 && len(a.Sels) == 0 {
			fr.nilCheck(a, x.Pos(), x.String())
		}
		t := g.define(fr.prefix+x.Name(), g.sortOf(x.Type()), g.load(h, a))
		fr.vals[x] = fr.wrap(t, x.Type())
		if f := fr.typeFacts(t, x.Type(), h); f != "true" {
			fr.assume(f, "type facts of loaded value")
		}
		return h
	case token.NOT:
		fr.vals[x] = &Val{T: not(fr.val(x.X).T)}
	case token.SUB:
		if isFloat(x.Type()) {
			fr.vals[x] = &Val{T: fr.uf("fneg", x.Type(), x.X)}
		} else {
			fr.vals[x] = &Val{T: g.define(fr.prefix+x.Name(), g.sortOf(x.Type()), fmt.Sprintf("(bvneg %s)", fr.val(x.X).T))}
		}
	case token.XOR:
		fr.vals[x] = &Val{T: g.define(fr.prefix+x.Name(), g.sortOf(x.Type()), fmt.Sprintf("(bvnot %s)", fr.val(x.X).T))}
	case token.ARROW:
		fr.vals[x] = fr.symbolic("recv_"+x.Name(), x.Type())
	default:
		panic(genErr("unop " + x.Op.String()))
	}
	return h
}

// uf applies an uninterpreted function named by op and operand sorts.
func (fr *Frame) uf(op string, res types.Type, args ...ssa.Value) string {
	g := fr.g
	var sorts, terms []string
	for _, a := range args {
		sorts = append(sorts, g.sortOf(a.Type()))
		terms = append(terms, fr.val(a).T)
	}
	name := "uf$" + op + "$" + sanitize(strings.Join(sorts, "_"))
	g.decl("fun:"+name, fmt.Sprintf("(declare-fun %s (%s) %s)", name, strings.Join(sorts, " "), g.sortOf(res)))
	return fmt.Sprintf("(%s %s)", name, strings.Join(terms, " "))
}

func (fr *Frame) binop(x *ssa.BinOp) *Val {
	g := fr.g
	a, b := fr.val(x.X), fr.val(x.Y)
	t := x.X.Type()
	res := func(term string) *Val {
		return &Val{T: g.define(fr.prefix+x.Name(), g.sortOf(x.Type()), term)}
	}
	// comparisons on non-integers
	if x.Op == token.EQL || x.Op == token.NEQ {
		var eq string
		switch {
		case isFloat(t):
			eq = fr.uf("feq", types.Typ[types.Bool], x.X, x.Y)
		default:
			at, bt := a.T, b.T
			if at == "" && a.A != nil {
				at = g.ptrTerm(a.A)
			}
			if bt == "" && b.A != nil {
				bt = g.ptrTerm(b.A)
			}
			eq = fmt.Sprintf("(= %s %s)", at, bt)
		}
		if x.Op == token.NEQ {
			eq = not(eq)
		}
		return res(eq)
	}
	if isFloat(t) {
		return res(fr.uf("f"+opName(x.Op), x.Type(), x.X, x.Y))
	}
	if isString(t) {
		switch x.Op {
		case token.ADD:
			r := g.fresh(fr.prefix+"concat", "Str")
			g.defs = append(g.defs, fmt.Sprintf("(= (slen %s) (bvadd (slen %s) (slen %s)))", r, a.T, b.T))
			g.defs = append(g.defs, fmt.Sprintf("(forall ((i (_ BitVec 64))) (! (= (sat %s i) (ite (bvult i (slen %s)) (sat %s i) (sat %s (bvsub i (slen %s))))) :pattern ((sat %s i))))", r, a.T, a.T, b.T, a.T, r))
			return &Val{T: r}
		default:
			return res(fr.uf("str"+opName(x.Op), x.Type(), x.X, x.Y))
		}
	}
	if isBool(t) {
		switch x.Op {
		case token.AND, token.LAND:
			return res(and(a.T, b.T))
		case token.OR, token.LOR:
			return res(or(a.T, b.T))
		}
	}
	w, signed, ok := intInfo(t)
	if !ok {
		panic(genErr(fmt.Sprintf("binop %s on %s", x.Op, t)))
	}
	switch x.Op {
	case token.ADD:
		return res(fmt.Sprintf("(bvadd %s %s)", a.T, b.T))
	case token.SUB:
		return res(fmt.Sprintf("(bvsub %s %s)", a.T, b.T))
	case token.MUL:
		return res(fmt.Sprintf("(bvmul %s %s)", a.T, b.T))
	case token.QUO, token.REM:
		fr.oblig("div", "safety", "", fmt.Sprintf("(not (= %s %s))", b.T, bvInt(0, w)), "division by zero: "+x.String(), x.Pos())
		op := map[bool]map[token.Token]string{true: {token.QUO: "bvsdiv", token.REM: "bvsrem"}, false: {token.QUO: "bvudiv", token.REM: "bvurem"}}[signed][x.Op]
		return res(fmt.Sprintf("(%s %s %s)", op, a.T, b.T))
	case token.AND:
		return res(fmt.Sprintf("(bvand %s %s)", a.T, b.T))
	case token.OR:
		return res(fmt.Sprintf("(bvor %s %s)", a.T, b.T))
	case token.XOR:
		return res(fmt.Sprintf("(bvxor %s %s)", a.T, b.T))
	case token.AND_NOT:
		return res(fmt.Sprintf("(bvand %s (bvnot %s))", a.T, b.T))
	case token.SHL, token.SHR:
		cw, csigned, _ := intInfo(x.Y.Type())
		cnt := b.T
		if csigned {
			fr.oblig("shift", "safety", "", fmt.Sprintf("(bvsge %s %s)", cnt, bvInt(0, cw)), "negative shift count: "+x.String(), x.Pos())
		}
		return res(shiftTerm(x.Op == token.SHL, signed, w, a.T, cnt, cw))
	case token.LSS, token.LEQ, token.GTR, token.GEQ:
		op := map[token.Token]string{token.LSS: "lt", token.LEQ: "le", token.GTR: "gt", token.GEQ: "ge"}[x.Op]
		if signed {
			op = "bvs" + op
		} else {
			op = "bvu" + op
		}
		return res(fmt.Sprintf("(%s %s %s)", op, a.T, b.T))
	}
	panic(genErr("binop " + x.Op.String()))
}

func opName(op token.Token) string {
	switch op {
	case token.ADD:
		return "add"
	case token.SUB:
		return "sub"
	case token.MUL:
		return "mul"
	case token.QUO:
		return "div"
	case token.LSS:
		return "lt"
	case token.LEQ:
		return "le"
	case token.GTR:
		return "gt"
	case token.GEQ:
		return "ge"
	case token.REM:
		return "rem"
	}
	return sanitize(op.String())
}

// shiftTerm implements Go shift semantics: counts >= width give 0 (or sign fill).
func shiftTerm(left, signed bool, w int, x, cnt string, cw int) string {
	// bring count to width w, saturating
	var c string
	switch {
	case cw == w:
		c = cnt
	case cw < w:
		c = fmt.Sprintf("((_ zero_extend %d) %s)", w-cw, cnt)
	default:
		// saturate: if cnt >= w then w else truncate
		c = fmt.Sprintf("(ite (bvuge %s %s) %s ((_ extract %d 0) %s))", cnt, bvInt(int64(w), cw), bvInt(int64(w), w), w-1, cnt)
	}
	// SMT-LIB shifts with count >= width already yield 0 / sign fill
	switch {
	case left:
		return fmt.Sprintf("(bvshl %s %s)", x, c)
	case signed:
		return fmt.Sprintf("(bvashr %s %s)", x, c)
	}
	return fmt.Sprintf("(bvlshr %s %s)", x, c)
}

func convInt(term string, fw int, fsigned bool, tw int) string {
	switch {
	case fw == tw:
		return term
	case fw > tw:
		return fmt.Sprintf("((_ extract %d 0) %s)", tw-1, term)
	case fsigned:
		return fmt.Sprintf("((_ sign_extend %d) %s)", tw-fw, term)
	}
	return fmt.Sprintf("((_ zero_extend %d) %s)", tw-fw, term)
}

func (fr *Frame) convert(x *ssa.Convert, h Heap) Heap {
	g := fr.g
	from, to := x.X.Type(), x.Type()
	v := fr.val(x.X)
	fw, fs, fint := intInfo(from)
	tw, _, tint := intInfo(to)
	switch {
	case fint && tint:
		fr.vals[x] = &Val{T: g.define(fr.prefix+x.Name(), g.sortOf(to), convInt(v.T, fw, fs, tw))}
	case isString(to) && fint:
		fr.vals[x] = fr.symbolic("runestr_"+x.Name(), to)
	case isString(to):
		// []byte / []rune -> string
		if sl, ok := from.Underlying().(*types.Slice); ok {
			if w, _, _ := intInfo(sl.Elem()); w == 8 {
				s := g.fresh(fr.prefix+"str_"+x.Name(), "Str")
				name, srt := g.elemArrName(sl.Elem())
				arr := g.heapArr(h, name, srt)
				g.defs = append(g.defs, fmt.Sprintf("(= (slen %s) (s_len %s))", s, v.T))
				g.defs = append(g.defs, fmt.Sprintf("(forall ((i (_ BitVec 64))) (! (=> (bvult i (s_len %s)) (= (sat %s i) (select (select %s (s_arr %s)) (bvadd (s_off %s) i)))) :pattern ((sat %s i))))", v.T, s, arr, v.T, v.T, s))
				fr.vals[x] = &Val{T: s}
				return h
			}
			fr.vals[x] = fr.symbolic("runesstr_"+x.Name(), to)
			return h
		}
		fr.vals[x] = &Val{T: v.T}
	case isString(from):
		if sl, ok := to.Underlying().(*types.Slice); ok {
			if w, _, _ := intInfo(sl.Elem()); w == 8 {
				r, nh := fr.freshRef(h, "bytes_"+x.Name())
				name, srt := g.elemArrName(sl.Elem())
				arr := g.heapArr(nh, name, srt)
				na := g.fresh(fr.prefix+"bytesarr", "(Array "+idxSort+" (_ BitVec 8))")
				g.defs = append(g.defs, fmt.Sprintf("(forall ((i (_ BitVec 64))) (! (=> (bvult i (slen %s)) (= (select %s i) (sat %s i))) :pattern ((select %s i))))", v.T, na, v.T, na))
				nh[name] = g.define(name, srt, fmt.Sprintf("(store %s %s %s)", arr, r, na))
				fr.vals[x] = &Val{T: g.define(fr.prefix+x.Name(), "Slice", fmt.Sprintf("(mk_slice %s #x0000000000000000 (slen %s) (slen %s))", r, v.T, v.T))}
				return nh
			}
			fr.vals[x] = fr.symbolic("runes_"+x.Name(), to)
			return h
		}
		fr.vals[x] = &Val{T: v.T}
	case isFloat(from) || isFloat(to):
		if isFloat(from) && isFloat(to) && g.sortOf(from) == g.sortOf(to) {
			fr.vals[x] = &Val{T: v.T}
		} else {
			fr.vals[x] = &Val{T: g.define(fr.prefix+x.Name(), g.sortOf(to), fr.uf("fconv$"+sanitize(g.sortOf(to)), to, x.X))}
		}
	default:
		// pointer <-> unsafe.Pointer and similar representation-preserving conversions
		if g.sortOf(from) == g.sortOf(to) {
			t := v.T
			if t == "" && v.A != nil {
				t = g.ptrTerm(v.A)
			}
			nv := fr.wrap(t, to)
			if v.A != nil {
				if _, isPtr := to.Underlying().(*types.Pointer); !isPtr {
					nv.A = v.A // keep provenance through unsafe.Pointer
				}
			}
			fr.vals[x] = nv
		} else {
			panic(genErr(fmt.Sprintf("convert %s -> %s", from, to)))
		}
	}
	return h
}

func (fr *Frame) typeAssert(x *ssa.TypeAssert, h Heap) Heap {
	g := fr.g
	iv := fr.val(x.X).T
	var ok, v string
	if _, isIface := x.AssertedType.Underlying().(*types.Interface); isIface {
		okc := g.fresh(fr.prefix+"implements", "Bool")
		ok = g.define(fr.prefix+"ok_"+x.Name(), "Bool", fmt.Sprintf("(and %s (not (= (i_tag %s) 0)))", okc, iv))
		// the same dynamic type always answers the same way
		fn := "implements$" + sanitize(typeKey(x.AssertedType))
		g.decl("fun:"+fn, fmt.Sprintf("(declare-fun %s (Int) Bool)", fn))
		g.defs = append(g.defs, fmt.Sprintf("(= %s (%s (i_tag %s)))", okc, fn, iv))
		v = ite(ok, iv, "(mk_iface 0 0)")
	} else {
		ok = g.define(fr.prefix+"ok_"+x.Name(), "Bool", fmt.Sprintf("(= (i_tag %s) %s)", iv, g.typeTag(x.AssertedType)))
		v = g.define(fr.prefix+x.Name(), g.sortOf(x.AssertedType), ite(ok, g.unbox(x.AssertedType, fmt.Sprintf("(i_val %s)", iv)), g.zero(x.AssertedType)))
	}
	if x.CommaOk {
		fr.vals[x] = &Val{Tup: []*Val{fr.wrap(v, x.AssertedType), {T: ok}}}
	} else {
		fr.oblig("typeassert", "safety", "", ok, "type assertion holds: "+x.String(), x.Pos())
		fr.vals[x] = fr.wrap(v, x.AssertedType)
	}
	return h
}

func (fr *Frame) lookup(x *ssa.Lookup, h Heap) Heap {
	g := fr.g
	if mt, ok := x.X.Type().Underlying().(*types.Map); ok {
		m := fr.val(x.X).T
		k := fr.val(x.Index).T
		d, v, _ := g.mapArrNames(mt)
		dom := g.define(fr.prefix+"has_"+x.Name(), "Bool", fmt.Sprintf("(and (not (= %s 0)) (select (select %s %s) %s))", m, g.heapArr(h, d, g.heapSort[d]), m, k))
		val := g.define(fr.prefix+x.Name(), g.sortOf(mt.Elem()), ite(dom, fmt.Sprintf("(select (select %s %s) %s)", g.heapArr(h, v, g.heapSort[v]), m, k), g.zero(mt.Elem())))
		if f := fr.typeFacts(val, mt.Elem(), h); f != "true" {
			fr.assume(f, "type facts of map value")
		}
		if x.CommaOk {
			fr.vals[x] = &Val{Tup: []*Val{fr.wrap(val, mt.Elem()), {T: dom}}}
		} else {
			fr.vals[x] = fr.wrap(val, mt.Elem())
		}
		return h
	}
	// string index
	idx := fr.to64(fr.val(x.Index).T, x.Index.Type())
	s := fr.val(x.X).T
	fr.oblig("bounds", "safety", "", fmt.Sprintf("(bvult %s (slen %s))", idx, s), "string index in range", x.Pos())
	fr.vals[x] = &Val{T: fmt.Sprintf("(sat %s %s)", s, idx)}
	return h
}

func (fr *Frame) mapUpdate(x *ssa.MapUpdate, h Heap) Heap {
	g := fr.g
	mt := x.Map.Type().Underlying().(*types.Map)
	m := fr.val(x.Map).T
	k := fr.val(x.Key).T
	vv := fr.val(x.Value)
	v := vv.T
	if v == "" && vv.A != nil {
		v = g.ptrTerm(vv.A)
	}
	fr.oblig("nilmap", "safety", "", fmt.Sprintf("(not (= %s 0))", m), "assignment to entry in nil map", x.Pos())
	return fr.mapStore(h, mt, m, k, v)
}

func (fr *Frame) mapStore(h Heap, mt *types.Map, m, k, v string) Heap {
	g := fr.g
	d, va, c := g.mapArrNames(mt)
	nh := h.clone()
	darr := g.heapArr(h, d, g.heapSort[d])
	varr := g.heapArr(h, va, g.heapSort[va])
	carr := g.heapArr(h, c, g.heapSort[c])
	had := fmt.Sprintf("(select (select %s %s) %s)", darr, m, k)
	nh[d] = g.define(d, g.heapSort[d], fmt.Sprintf("(store %s %s (store (select %s %s) %s true))", darr, m, darr, m, k))
	nh[va] = g.define(va, g.heapSort[va], fmt.Sprintf("(store %s %s (store (select %s %s) %s %s))", varr, m, varr, m, k, v))
	nh[c] = g.define(c, g.heapSort[c], fmt.Sprintf("(store %s %s (ite %s (select %s %s) (bvadd (select %s %s) #x0000000000000001)))", carr, m, had, carr, m, carr, m))
	return nh
}

func (fr *Frame) mapDelete(h Heap, mt *types.Map, m, k string) Heap {
	g := fr.g
	d, _, c := g.mapArrNames(mt)
	nh := h.clone()
	darr := g.heapArr(h, d, g.heapSort[d])
	carr := g.heapArr(h, c, g.heapSort[c])
	had := fmt.Sprintf("(select (select %s %s) %s)", darr, m, k)
	// delete on a nil map is a no-op
	nh[d] = g.define(d, g.heapSort[d], fmt.Sprintf("(ite (= %s 0) %s (store %s %s (store (select %s %s) %s false)))", m, darr, darr, m, darr, m, k))
	nh[c] = g.define(c, g.heapSort[c], fmt.Sprintf("(ite (= %s 0) %s (store %s %s (ite %s (bvsub (select %s %s) #x0000000000000001) (select %s %s))))", m, carr, carr, m, had, carr, m, carr, m))
	return nh
}

func (fr *Frame) next(x *ssa.Next, h Heap) Heap {
	g := fr.g
	r, ok := x.Iter.(*ssa.Range)
	if !ok || x.IsString {
		panic(genErr("Next over string is outside the subset"))
	}
	mt := r.X.Type().Underlying().(*types.Map)
	m := fr.val(r.X).T
	d, va, _ := g.mapArrNames(mt)
	seenName := fr.seenName(r)
	seen := g.heapArr(h, seenName, g.heapSort[seenName])
	okv := g.fresh(fr.prefix+"next_ok", "Bool")
	k := g.fresh(fr.prefix+"next_k", g.sortOf(mt.Key()))
	dom := fmt.Sprintf("(select %s %s)", g.heapArr(h, d, g.heapSort[d]), m)
	val := fmt.Sprintf("(select (select %s %s) %s)", g.heapArr(h, va, g.heapSort[va]), m, k)
	ks := g.sortOf(mt.Key())
	fr.assume(fmt.Sprintf("(=> %s (and (not (= %s 0)) (select %s %s) (not (select %s %s))))", okv, m, dom, k, seen, k), "map range yields an unseen present key")
	fr.assume(fmt.Sprintf("(=> (not %s) (or (= %s 0) (forall ((kk %s)) (! (=> (select %s kk) (select %s kk)) :pattern ((select %s kk))))))", okv, m, ks, dom, seen, dom), "map range ends when every present key was seen")
	nh := h.clone()
	nh[seenName] = g.define(seenName, g.heapSort[seenName], fmt.Sprintf("(ite %s (store %s %s true) %s)", okv, seen, k, seen))
	v := g.define(fr.prefix+"next_v", g.sortOf(mt.Elem()), val)
	if f := fr.typeFacts(v, mt.Elem(), h); f != "true" {
		fr.assume(f, "type facts of map value")
	}
	fr.vals[x] = &Val{Tup: []*Val{{T: okv}, fr.wrap(k, mt.Key()), fr.wrap(v, mt.Elem())}}
	return nh
}

func (fr *Frame) sliceOp(x *ssa.Slice, h Heap) Heap {
	g := fr.g
	z := bvInt(0, 64)
	get := func(v ssa.Value, def string) string {
		if v == nil {
			return def
		}
		return fr.to64(fr.val(v).T, v.Type())
	}
	switch t := x.X.Type().Underlying().(type) {
	case *types.Slice:
		s := fr.val(x.X).T
		lo := get(x.Low, z)
		hi := get(x.High, fmt.Sprintf("(s_len %s)", s))
		mx := get(x.Max, fmt.Sprintf("(s_cap %s)", s))
		fr.oblig("slice", "safety", "", and(fmt.Sprintf("(bvule %s %s)", lo, hi), fmt.Sprintf("(bvule %s %s)", hi, mx), fmt.Sprintf("(bvule %s (s_cap %s))", mx, s)), "slice bounds in range: "+x.String(), x.Pos())
		fr.vals[x] = &Val{T: g.define(fr.prefix+x.Name(), "Slice", fmt.Sprintf("(mk_slice (s_arr %s) (bvadd (s_off %s) %s) (bvsub %s %s) (bvsub %s %s))", s, s, lo, hi, lo, mx, lo))}
	case *types.Basic: // string
		s := fr.val(x.X).T
		lo := get(x.Low, z)
		hi := get(x.High, fmt.Sprintf("(slen %s)", s))
		fr.oblig("slice", "safety", "", and(fmt.Sprintf("(bvule %s %s)", lo, hi), fmt.Sprintf("(bvule %s (slen %s))", hi, s)), "string slice bounds in range", x.Pos())
		r := g.fresh(fr.prefix+"substr", "Str")
		g.defs = append(g.defs, fmt.Sprintf("(=> (and (bvule %s %s) (bvule %s (slen %s))) (= (slen %s) (bvsub %s %s)))", lo, hi, hi, s, r, hi, lo))
		g.defs = append(g.defs, fmt.Sprintf("(forall ((i (_ BitVec 64))) (! (=> (bvult i (bvsub %s %s)) (= (sat %s i) (sat %s (bvadd %s i)))) :pattern ((sat %s i))))", hi, lo, r, s, lo, r))
		fr.vals[x] = &Val{T: r}
	case *types.Pointer:
		at := t.Elem().Underlying().(*types.Array)
		a := fr.addrOf(x.X)
		if a.Kind != 0 || len(a.Sels) != 0 {
			panic(genErr("slicing an array embedded in another object is outside the subset"))
		}
		n := bvInt(at.Len(), 64)
		lo := get(x.Low, z)
		hi := get(x.High, n)
		mx := get(x.Max, n)
		fr.oblig("slice", "safety", "", and(fmt.Sprintf("(bvule %s %s)", lo, hi), fmt.Sprintf("(bvule %s %s)", hi, mx), fmt.Sprintf("(bvule %s %s)", mx, n)), "slice bounds in range", x.Pos())
		fr.vals[x] = &Val{T: g.define(fr.prefix+x.Name(), "Slice", fmt.Sprintf("(mk_slice %s %s (bvsub %s %s) (bvsub %s %s))", a.Base, lo, hi, lo, mx, lo))}
	default:
		panic(genErr("slice of " + x.X.Type().String()))
	}
	return h
}

func (fr *Frame) runDefers(x *ssa.RunDefers, h Heap) Heap {
	// deferred calls in LIFO order; only those registered on every path are modelled precisely,
	// the others (conditional defers) are treated the same way: sound for no-op callees, and any
	// callee with effects is applied through its contract (or havoc).
	for i := len(fr.defers) - 1; i >= 0; i-- {
		d := fr.defers[i]
		h = fr.call(nil, d.Common(), h)
	}
	return h
}
