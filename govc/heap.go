package main

// Field-split heap (Burstall-Bornat): one SMT array per struct field, per cell sort, per slice
// element sort; maps as (dom, val, card) triples. A Heap value is an immutable snapshot:
// name -> current SMT term of that array.

import (
	"fmt"
	"go/types"
	"sort"
	"strings"
)

type Heap map[string]string

func (h Heap) clone() Heap {
	n := make(Heap, len(h)+2)
	for k, v := range h {
		n[k] = v
	}
	return n
}

type Sel struct {
	Field   int
	StructT types.Type // the struct type (named or not) the field belongs to
	Index   string     // term (64-bit) for array element selection
	ArrT    *types.Array
}

type Addr struct {
	Kind int // 0 root object, 1 slice/array-backed element
	Base string
	Idx  string
	T    types.Type // type of the object at (Base) or of the element at (Base,Idx)
	Sels []Sel
}

type Val struct {
	T   string
	Tup []*Val
	A   *Addr
}

func (a *Addr) extend(s Sel) *Addr {
	n := *a
	n.Sels = append(append([]Sel{}, a.Sels...), s)
	return &n
}

func (a *Addr) finalType() types.Type {
	t := a.T
	for _, s := range a.Sels {
		if s.ArrT != nil {
			t = s.ArrT.Elem()
		} else {
			t = s.StructT.Underlying().(*types.Struct).Field(s.Field).Type()
		}
	}
	return t
}

// heapArr returns the current term for heap array `name`, declaring its initial version on demand.
func (g *Gen) heapArr(h Heap, name, sort string) string {
	if t, ok := h[name]; ok {
		return t
	}
	g.heapSort[name] = sort
	ep := h["$epoch"]
	if ep == "" {
		ep = "0"
	}
	init := name + "@" + ep
	if !g.declSet["heap:"+init] {
		g.decl("heap:"+init, fmt.Sprintf("(declare-const %s %s)", init, sort))
		g.closureAxiom(name, init, sort, ep)
	}
	return init
}

// refKind: how references occur in values of heap array `name` ("" none, "ref" the value is a
// reference, "slice" the value is a slice header whose backing array is a reference).
func refKindOf(t types.Type) string {
	switch t.Underlying().(type) {
	case *types.Pointer, *types.Map, *types.Chan:
		return "ref"
	case *types.Slice:
		return "slice"
	}
	return ""
}

// closureAxiom: the heap is closed — every reference stored in a pre-existing (or havocked) heap
// array points to an object allocated no later than the state it belongs to. This is what makes
// freshly allocated objects distinct from everything reachable before.
func (g *Gen) closureAxiom(name, term, sort, epoch string) {
	kind := g.heapRefKind[name]
	if kind == "" {
		return
	}
	alloc := "$alloc@0"
	if epoch != "0" {
		a, ok := g.epochAlloc[epoch]
		if !ok {
			return
		}
		alloc = a
	} else {
		g.heapSort["$alloc"] = "Int"
		g.decl("heap:$alloc@0", "(declare-const $alloc@0 Int)")
		g.decl("heap:$alloc@0>0", "(assert (> $alloc@0 0))")
	}
	g.closureAxiomAt(name, term, sort, alloc)
}

// closedValue: a single havocked value stored in heap array `name` refers to nothing allocated
// after `alloc`.
func (g *Gen) closedValue(name, v, alloc string) {
	switch g.heapRefKind[name] {
	case "ref":
		g.defs = append(g.defs, fmt.Sprintf("(<= %s %s)", v, alloc))
	case "slice":
		g.defs = append(g.defs, fmt.Sprintf("(<= (s_arr %s) %s)", v, alloc))
	}
}

func (g *Gen) closureAxiomAt(name, term, sort, alloc string) {
	kind := g.heapRefKind[name]
	if kind == "" {
		return
	}
	val := func(v string) string {
		if kind == "slice" {
			return "(s_arr " + v + ")"
		}
		return v
	}
	// shapes: (Array Int V) | (Array Int (Array K V))
	inner := strings.TrimSuffix(strings.TrimPrefix(sort, "(Array Int "), ")")
	if strings.HasPrefix(inner, "(Array ") {
		// find key sort of the inner array
		ks := firstSort(inner[len("(Array "):])
		g.defs = append(g.defs, fmt.Sprintf("(forall ((r Int) (k %s)) (! (=> (<= r %s) (<= %s %s)) :pattern ((select (select %s r) k))))", ks, alloc, val(fmt.Sprintf("(select (select %s r) k)", term)), alloc, term))
		return
	}
	// only objects allocated so far are constrained: what a callee reports about an object it has
	// freshly allocated (fields of a reference above the old allocation mark) stays consistent
	g.defs = append(g.defs, fmt.Sprintf("(forall ((r Int)) (! (=> (<= r %s) (<= %s %s)) :pattern ((select %s r))))", alloc, val(fmt.Sprintf("(select %s r)", term)), alloc, term))
}

// firstSort returns the first sort expression at the start of s.
func firstSort(s string) string {
	if !strings.HasPrefix(s, "(") {
		if i := strings.IndexAny(s, " )"); i >= 0 {
			return s[:i]
		}
		return s
	}
	depth := 0
	for i, c := range s {
		switch c {
		case '(':
			depth++
		case ')':
			depth--
			if depth == 0 {
				return s[:i+1]
			}
		}
	}
	return s
}

func (g *Gen) fieldArrName(structT types.Type, field int) (string, string) {
	st := structT.Underlying().(*types.Struct)
	f := st.Field(field)
	name := "H$" + g.structName(structT) + "$" + f.Name()
	g.heapRefKind[name] = refKindOf(f.Type())
	return name, "(Array Int " + g.sortOf(f.Type()) + ")"
}

func (g *Gen) cellArrName(t types.Type) (string, string) {
	s := g.sortOf(t)
	if !g.intMode || refKindOf(t) != "" {
		// in int mode C$Int is shared by integers and references: no closure axiom there
		if k := refKindOf(t); k != "" && !(g.intMode && s == "Int") {
			g.heapRefKind["C$"+sanitize(s)] = k
		}
	}
	return "C$" + sanitize(s), "(Array Int " + s + ")"
}

func (g *Gen) elemArrName(t types.Type) (string, string) {
	s := g.sortOf(t)
	if k := refKindOf(t); k != "" && !(g.intMode && s == "Int") {
		g.heapRefKind["E$"+sanitize(s)] = k
	}
	return "E$" + sanitize(s), "(Array Int (Array " + g.IS() + " " + s + "))"
}

func (g *Gen) isSplitStruct(t types.Type) bool {
	_, ok := t.Underlying().(*types.Struct)
	return ok && !g.isOpaqueStruct(t)
}

// getPath projects a value term of type t along selectors.
func (g *Gen) getPath(term string, t types.Type, sels []Sel) string {
	for _, s := range sels {
		if s.ArrT != nil {
			term = fmt.Sprintf("(select %s %s)", term, s.Index)
			t = s.ArrT.Elem()
		} else {
			st := s.StructT.Underlying().(*types.Struct)
			osort := g.sortOf(s.StructT)
			acc := g.accessor(g.structName(s.StructT), st.Field(s.Field).Name(), s.Field)
			if g.isOpaqueStruct(s.StructT) {
				// exported field of an opaque (foreign) struct: an uninterpreted projection
				g.decl("fun:"+acc, fmt.Sprintf("(declare-fun %s (%s) %s)", acc, osort, g.sortOf(st.Field(s.Field).Type())))
			}
			term = fmt.Sprintf("(%s %s)", acc, term)
			t = st.Field(s.Field).Type()
		}
	}
	return term
}

// setPath returns term updated at the path with nv.
func (g *Gen) setPath(term string, t types.Type, sels []Sel, nv string) string {
	if len(sels) == 0 {
		return nv
	}
	s := sels[0]
	if s.ArrT != nil {
		inner := g.setPath(fmt.Sprintf("(select %s %s)", term, s.Index), s.ArrT.Elem(), sels[1:], nv)
		return fmt.Sprintf("(store %s %s %s)", term, s.Index, inner)
	}
	st := s.StructT.Underlying().(*types.Struct)
	g.sortOf(s.StructT)
	name := g.structName(s.StructT)
	var parts []string
	for i := 0; i < st.NumFields(); i++ {
		acc := fmt.Sprintf("(%s %s)", g.accessor(name, st.Field(i).Name(), i), term)
		if i == s.Field {
			parts = append(parts, g.setPath(acc, st.Field(i).Type(), sels[1:], nv))
		} else {
			parts = append(parts, acc)
		}
	}
	return fmt.Sprintf("(mk$%s %s)", name, strings.Join(parts, " "))
}

// load reads the value at address a in heap h.
func (g *Gen) load(h Heap, a *Addr) string {
	if a.Kind == 1 {
		name, srt := g.elemArrName(a.T)
		arr := g.heapArr(h, name, srt)
		cell := fmt.Sprintf("(select (select %s %s) %s)", arr, a.Base, a.Idx)
		return g.getPath(cell, a.T, a.Sels)
	}
	if g.isSplitStruct(a.T) {
		st := a.T.Underlying().(*types.Struct)
		if len(a.Sels) == 0 {
			g.sortOf(a.T)
			name := g.structName(a.T)
			if st.NumFields() == 0 {
				return "mk$" + name
			}
			var parts []string
			for i := 0; i < st.NumFields(); i++ {
				an, as := g.fieldArrName(a.T, i)
				parts = append(parts, fmt.Sprintf("(select %s %s)", g.heapArr(h, an, as), a.Base))
			}
			return fmt.Sprintf("(mk$%s %s)", name, strings.Join(parts, " "))
		}
		s0 := a.Sels[0]
		an, as := g.fieldArrName(a.T, s0.Field)
		cell := fmt.Sprintf("(select %s %s)", g.heapArr(h, an, as), a.Base)
		return g.getPath(cell, st.Field(s0.Field).Type(), a.Sels[1:])
	}
	if at, ok := a.T.Underlying().(*types.Array); ok {
		name, srt := g.elemArrName(at.Elem())
		arr := g.heapArr(h, name, srt)
		whole := fmt.Sprintf("(select %s %s)", arr, a.Base)
		return g.getPath(whole, a.T, a.Sels)
	}
	name, srt := g.cellArrName(a.T)
	cell := fmt.Sprintf("(select %s %s)", g.heapArr(h, name, srt), a.Base)
	return g.getPath(cell, a.T, a.Sels)
}

// store writes nv at address a; returns the new heap.
func (g *Gen) store(h Heap, a *Addr, nv string) Heap {
	nh := h.clone()
	if a.Kind == 1 {
		name, srt := g.elemArrName(a.T)
		arr := g.heapArr(h, name, srt)
		inner := fmt.Sprintf("(select %s %s)", arr, a.Base)
		cell := fmt.Sprintf("(select %s %s)", inner, a.Idx)
		nc := g.setPath(cell, a.T, a.Sels, nv)
		nh[name] = g.define(name, srt, fmt.Sprintf("(store %s %s (store %s %s %s))", arr, a.Base, inner, a.Idx, nc))
		return nh
	}
	if g.isSplitStruct(a.T) {
		st := a.T.Underlying().(*types.Struct)
		if len(a.Sels) == 0 {
			g.sortOf(a.T)
			name := g.structName(a.T)
			for i := 0; i < st.NumFields(); i++ {
				an, as := g.fieldArrName(a.T, i)
				acc := fmt.Sprintf("(%s %s)", g.accessor(name, st.Field(i).Name(), i), nv)
				nh[an] = g.define(an, as, fmt.Sprintf("(store %s %s %s)", g.heapArr(h, an, as), a.Base, acc))
			}
			return nh
		}
		s0 := a.Sels[0]
		an, as := g.fieldArrName(a.T, s0.Field)
		arr := g.heapArr(h, an, as)
		cell := fmt.Sprintf("(select %s %s)", arr, a.Base)
		nc := g.setPath(cell, st.Field(s0.Field).Type(), a.Sels[1:], nv)
		nh[an] = g.define(an, as, fmt.Sprintf("(store %s %s %s)", arr, a.Base, nc))
		return nh
	}
	if at, ok := a.T.Underlying().(*types.Array); ok {
		name, srt := g.elemArrName(at.Elem())
		arr := g.heapArr(h, name, srt)
		whole := fmt.Sprintf("(select %s %s)", arr, a.Base)
		nc := g.setPath(whole, a.T, a.Sels, nv)
		nh[name] = g.define(name, srt, fmt.Sprintf("(store %s %s %s)", arr, a.Base, nc))
		return nh
	}
	name, srt := g.cellArrName(a.T)
	arr := g.heapArr(h, name, srt)
	cell := fmt.Sprintf("(select %s %s)", arr, a.Base)
	nc := g.setPath(cell, a.T, a.Sels, nv)
	nh[name] = g.define(name, srt, fmt.Sprintf("(store %s %s %s)", arr, a.Base, nc))
	return nh
}

// heapNamesFor lists the heap arrays an address may touch (for loop havoc / frames).
func (g *Gen) heapNameFor(a *Addr) string {
	if a.Kind == 1 {
		n, _ := g.elemArrName(a.T)
		return n
	}
	if g.isSplitStruct(a.T) {
		if len(a.Sels) == 0 {
			return "H$" + g.structName(a.T) + "$*"
		}
		n, _ := g.fieldArrName(a.T, a.Sels[0].Field)
		return n
	}
	if at, ok := a.T.Underlying().(*types.Array); ok {
		n, _ := g.elemArrName(at.Elem())
		return n
	}
	n, _ := g.cellArrName(a.T)
	return n
}

// ptrTerm gives an Int term for a pointer value. Root pointers are their reference; interior
// pointers are injective uninterpreted functions of the root (only used for opaque pointees).
func (g *Gen) ptrTerm(a *Addr) string {
	if a.Kind == 0 && len(a.Sels) == 0 {
		return a.Base
	}
	if a.Kind == 1 {
		k := sanitize(g.sortOf(a.T))
		g.decl("fun:elemptr$"+k, fmt.Sprintf("(declare-fun elemptr$%s (Int %s) Int)", k, g.IS()))
		t := fmt.Sprintf("(elemptr$%s %s %s)", k, a.Base, a.Idx)
		if len(a.Sels) > 0 {
			panic(genErr("interior pointer into slice element field escapes"))
		}
		return t
	}
	t := a.Base
	cur := a.T
	for _, s := range a.Sels {
		if s.ArrT != nil {
			panic(genErr("interior pointer into array element escapes"))
		}
		st := s.StructT.Underlying().(*types.Struct)
		fn := "fld$" + g.structName(s.StructT) + "$" + st.Field(s.Field).Name()
		if !g.declSet["fun:"+fn] {
			// interior pointers: injective in the root (ptrroot inverts them), different fields never
			// coincide (ptrtag), and never equal to an allocation reference, a global or a function id (all
			// above -2^40). The axiom is triggered by ground occurrences of the function only.
			g.nInterior++
			g.decl("fun:ptrtag", "(declare-fun ptrtag (Int) Int)")
			g.decl("fun:ptrroot", "(declare-fun ptrroot (Int) Int)")
			g.decl("fun:"+fn, fmt.Sprintf("(declare-fun %s (Int) Int)", fn))
			g.decl("ax:"+fn, fmt.Sprintf("(assert (forall ((x Int)) (! (and (= (ptrtag (%s x)) %d) (= (ptrroot (%s x)) x) (< (%s x) (- 1099511627776))) :pattern ((%s x)))))", fn, g.nInterior, fn, fn, fn))
		}
		// interior pointers are distinct from allocation references: keep them negative and even-odd free by axiom-less injectivity
		t = fmt.Sprintf("(%s %s)", fn, t)
		cur = st.Field(s.Field).Type()
	}
	_ = cur
	return t
}

func sortedKeys(m map[string]string) []string {
	var ks []string
	for k := range m {
		ks = append(ks, k)
	}
	sort.Strings(ks)
	return ks
}

// mergeHeaps builds the heap at a join: for each name, ite over incoming edges.
func (g *Gen) mergeHeaps(edges []string, heaps []Heap) Heap {
	if len(heaps) == 1 {
		return heaps[0].clone()
	}
	names := map[string]bool{}
	for _, h := range heaps {
		for k := range h {
			names[k] = true
		}
	}
	out := Heap{}
	sameEpoch := true
	for _, h := range heaps {
		if h["$epoch"] != heaps[0]["$epoch"] {
			sameEpoch = false
		}
	}
	if !sameEpoch {
		// materialise every known array in every incoming heap; later first-seen arrays are unconstrained
		for k := range g.heapSort {
			names[k] = true
		}
		g.nfresh++
		out["$epoch"] = fmt.Sprintf("m%d", g.nfresh)
	}
	delete(names, "$epoch")
	var ks []string
	for k := range names {
		ks = append(ks, k)
	}
	sort.Strings(ks)
	for _, k := range ks {
		srt := g.heapSort[k]
		same := true
		first := g.heapArr(heaps[0], k, srt)
		terms := make([]string, len(heaps))
		for i, h := range heaps {
			terms[i] = g.heapArr(h, k, srt)
			if terms[i] != first {
				same = false
			}
		}
		if same {
			out[k] = first
			continue
		}
		t := terms[len(terms)-1]
		for i := len(terms) - 2; i >= 0; i-- {
			t = ite(edges[i], terms[i], t)
		}
		out[k] = g.define(k, srt, t)
	}
	if sameEpoch && heaps[0]["$epoch"] != "" {
		out["$epoch"] = heaps[0]["$epoch"]
	}
	return out
}
