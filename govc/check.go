package main

// govc check -prop Cxx: verifies every unit (function under contract, lemma) that lists the
// property, compares against the ledger, applies known findings, writes evidence.

import (
	"bufio"
	"encoding/json"
	"flag"
	"fmt"
	"os"
	"path/filepath"
	"regexp"
	"sort"
	"strconv"
	"strings"
	"time"
)

type Ledger struct {
	Property    string   `json:"property"`
	Obligations []string `json:"obligations"`
}

type Finding struct {
	Kind       string // finding | fixed
	Property   string
	Obligation string
	Text       string
}

var kvRe = regexp.MustCompile(`(\w+)=(\S+)`)

func loadFindings(path string) []Finding {
	f, err := os.Open(path)
	if err != nil {
		return nil
	}
	defer f.Close()
	var out []Finding
	sc := bufio.NewScanner(f)
	for sc.Scan() {
		line := strings.TrimSpace(sc.Text())
		if line == "" || strings.HasPrefix(line, "#") {
			continue
		}
		var fd Finding
		switch {
		case strings.HasPrefix(line, "finding:"):
			fd.Kind = "finding"
		case strings.HasPrefix(line, "fixed:"):
			fd.Kind = "fixed"
		default:
			continue
		}
		for _, m := range kvRe.FindAllStringSubmatch(line, -1) {
			switch m[1] {
			case "property":
				fd.Property = m[2]
			case "obligation":
				fd.Obligation = m[2]
			}
		}
		fd.Text = line
		out = append(out, fd)
	}
	return out
}

func hasProp(ps []string, id string) bool {
	for _, p := range ps {
		if p == id {
			return true
		}
	}
	return false
}

func cmdCheck(args []string) int {
	fs := flag.NewFlagSet("check", flag.ExitOnError)
	root := fs.String("root", envOr("VERIF_REPO", "/repo"), "repository root")
	verif := fs.String("verif", envOr("VERIF_DIR", "/verif"), "verif dir")
	prop := fs.String("prop", "", "property id")
	tier := fs.String("tier", envOr("VERIF_TIER", "quick"), "quick|thorough")
	updateLedger := fs.Bool("update-ledger", false, "rewrite the ledger from this run (development only)")
	noEvidence := fs.Bool("no-evidence", false, "do not write evidence (selftest)")
	par := fs.Int("par", 14, "parallel solver processes")
	fs.Parse(args)
	if *prop == "" {
		fmt.Fprintln(os.Stderr, "need -prop")
		return 2
	}
	t0 := time.Now()
	seed, _ := strconv.Atoi(os.Getenv("VERIF_SEED"))
	timeout := 10
	if *tier == "thorough" {
		timeout = 60
	}
	ev := &Evidence{PropertyID: *prop, Tier: *tier, Seed: seed, Level: "proof"}
	ev.Coverage.CheckerCmd = fmt.Sprintf("govc check -prop %s -tier %s (go/ssa -> SMT-LIB; z3 5.1.0, z3 4.8.12, cvc5 1.0.3 raced per obligation, timeout %ds)", *prop, *tier, timeout)
	ev.Coverage.TrustedBase = []string{
		"govc: the SSA->SMT translation, memory model and contract parser written for this task (/verif/govc)",
		"golang.org/x/tools/go/ssa v0.29.0 and go/types (SSA built from /repo's working tree on every run)",
		"SMT solvers: an 'unsat' answer of z3 5.1.0 / z3 4.8.12 / cvc5 1.0.3 is believed",
		"the Go compiler and runtime implement the language semantics the translation encodes",
	}
	violations := 0
	var lines []string
	fail := func(obl string, replay string, noInput bool) {
		violations++
		l := fmt.Sprintf("VIOLATION property=%s replay=%s", *prop, replay)
		if noInput {
			l += " no-failing-input-found"
		}
		lines = append(lines, l)
	}
	replayDir := filepath.Join(*verif, "replays", *prop)
	os.MkdirAll(replayDir, 0755)
	// stale replays of earlier runs are removed
	if old, _ := filepath.Glob(filepath.Join(replayDir, "*.json")); len(old) > 0 {
		for _, o := range old {
			os.Remove(o)
		}
	}
	writeReplay := func(name string, body map[string]interface{}) string {
		p := filepath.Join(replayDir, sanitize(name)+".json")
		b, _ := json.MarshalIndent(body, "", " ")
		os.WriteFile(p, b, 0644)
		return p
	}
	finish := func() int {
		ev.Violations = violations
		ev.WallS = time.Since(t0).Seconds()
		if !*noEvidence {
			if err := ev.write(filepath.Join(*verif, "evidence", *prop+".json")); err != nil {
				fmt.Fprintln(os.Stderr, "cannot write evidence:", err)
				return 2
			}
		}
		for _, l := range lines {
			fmt.Println(l)
		}
		if violations > 0 {
			return 1
		}
		return 0
	}

	cs, err := loadAllContracts(*root, modPath, filepath.Join(*verif, "specs"))
	if err != nil {
		p := writeReplay("contracts", map[string]interface{}{"obligation": "contracts.parse", "error": err.Error()})
		fail("contracts.parse", p, true)
		fmt.Println("contract files cannot be read:", err)
		return finish()
	}
	var lemmas []*Lemma
	for _, lm := range cs.Lemmas {
		if hasProp(lm.Props, *prop) {
			lemmas = append(lemmas, lm)
		}
	}
	pkgs := pkgsOfContracts(cs, map[string]bool{*prop: true})
	if len(pkgs) == 0 {
		p := writeReplay("no-units", map[string]interface{}{"obligation": "units", "error": "no contract lists this property"})
		fail("units", p, true)
		return finish()
	}
	p, err := loadProgram(*root, modPath, pkgs, "verif")
	if err != nil {
		rp := writeReplay("load", map[string]interface{}{"obligation": "load", "error": err.Error()})
		fail("load", rp, true)
		fmt.Println("cannot load packages:", err)
		return finish()
	}
	p.Contracts = cs
	p.expandSweeps()
	p.markViaContract()
	var units []*FuncContract
	for _, fc := range cs.Funcs {
		if !fc.Trusted && hasProp(fc.Props, *prop) {
			units = append(units, fc)
		}
	}
	sort.Slice(units, func(i, j int) bool { return units[i].PkgPath+units[i].Name < units[j].PkgPath+units[j].Name })
	loadSecs := time.Since(t0).Seconds()

	// generate
	type unitRun struct {
		ur *UnitResult
		g  *Gen
		qs []*Query
	}
	var runs []*unitRun
	var all []*Query
	for _, fc := range units {
		tg := time.Now()
		g, fr, ur := p.genFunc(fc)
		r := &unitRun{ur: ur, g: g}
		if ur.Err == "" {
			terms, names := fr.inputTerms()
			r.qs = g.buildQueries(ur.Name, terms, names)
			all = append(all, r.qs...)
		}
		ur.GenSecs = time.Since(tg).Seconds()
		runs = append(runs, r)
	}
	for _, lm := range lemmas {
		g, ur := p.genLemma(lm)
		r := &unitRun{ur: ur, g: g}
		if ur.Err == "" {
			r.qs = g.buildQueries(ur.Name, g.lemmaTerms, g.lemmaNames)
			all = append(all, r.qs...)
		}
		runs = append(runs, r)
	}
	genSecs := time.Since(t0).Seconds() - loadSecs
	// obligations listed as known findings are expected to fail: they get the first two solving
	// stages (enough to notice that one has become provable) but no escalation
	for _, f := range loadFindings(filepath.Join(*verif, "known_findings.txt")) {
		if f.Kind != "finding" || f.Property != *prop {
			continue
		}
		for _, q := range all {
			n := q.Name
			if q.Group == "safety" {
				n = q.Unit + ".safety"
			} else if q.Group == "nopanic" {
				n = q.Unit + ".nopanic"
			} else if q.Group == "locks" {
				n = q.Unit + ".lock_discipline"
			} else if q.Group == "frame" {
				n = q.Unit + ".frame"
			}
			if n == f.Obligation {
				q.Known = true
			}
		}
	}
	ts := time.Now()
	results := solveAll(all, timeout, *par)
	solveWall := time.Since(ts).Seconds()
	byQ := map[*Query]*QResult{}
	for _, r := range results {
		byQ[r.Q] = r
	}
	// thorough: cross-check every unsat on a second solver
	cross := 0
	crossDisagree := []string{}
	if *tier == "thorough" {
		cross, crossDisagree = crossCheck(results, timeout, *par)
	}

	findings := loadFindings(filepath.Join(*verif, "known_findings.txt"))
	known := map[string]Finding{}
	for _, f := range findings {
		if f.Kind == "finding" && f.Property == *prop {
			known[f.Obligation] = f
		}
	}
	ledgerPath := filepath.Join(*verif, "ledger", *prop+".json")
	var ledger Ledger
	if b, err := os.ReadFile(ledgerPath); err == nil {
		json.Unmarshal(b, &ledger)
	}

	seen := map[string]*ObligResult{}
	backend := map[string]int{}
	var solverTotal, solverMax float64
	covers, canaries := 0, 0
	var samples []map[string]interface{}
	nObl, nDis := 0, 0
	var knownHit []string
	for _, r := range runs {
		ur := r.ur
		fn := map[string]interface{}{"unit": ur.Name, "kind": ur.Kind, "contract_file": strings.TrimPrefix(ur.File, *root+"/")}
		if ur.Err != "" {
			name := ur.Name + ".generate"
			seen[name] = &ObligResult{Name: name, Status: "undecided"}
			rp := writeReplay(name, map[string]interface{}{"obligation": name, "reason": "the verification conditions of this unit cannot be generated", "error": ur.Err, "property": *prop})
			fmt.Printf("obligation %s cannot be generated: %s\n", name, ur.Err)
			fail(name, rp, true)
			fn["error"] = ur.Err
			ev.Coverage.Functions = append(ev.Coverage.Functions, fn)
			continue
		}
		var rs []*QResult
		for _, q := range r.qs {
			rs = append(rs, byQ[q])
		}
		ur.finish(r.g, rs)
		fn["queries"] = ur.Queries
		fn["loops"] = ur.Loops
		fn["loops_with_invariant"] = ur.LoopsInv
		fn["vc_bytes_max"] = ur.VCBytes
		fn["arithmetic"] = ur.Mode
		if len(ur.Havocs) > 0 {
			fn["calls_abstracted_by_havoc"] = sortedHavocs(ur.Havocs)
		}
		ev.Coverage.Functions = append(ev.Coverage.Functions, fn)
		if ur.VCBytes > ev.Coverage.VCBytesMax {
			ev.Coverage.VCBytesMax = ur.VCBytes
		}
		for _, a := range ur.Assumed {
			ev.addAssumption(a)
		}
		for _, o := range ur.Obligs {
			seen[o.Name] = o
			if o.Group == "cover" {
				covers++
				if o.Status == "vacuous" {
					rp := writeReplay(o.Name, map[string]interface{}{"obligation": o.Name, "reason": "vacuity guard: no return of the function is reachable under its contract", "property": *prop})
					fmt.Printf("obligation %s: contract is vacuous\n", o.Name)
					fail(o.Name, rp, true)
				}
				continue
			}
			nObl++
			solverTotal += o.Secs
			if o.Secs > solverMax {
				solverMax = o.Secs
			}
			if o.Status == "discharged" {
				nDis++
				backend[o.Solver] += 1
				if len(samples) < 6 {
					samples = append(samples, map[string]interface{}{"obligation": o.Name, "kind": o.Kind, "clause": o.Src, "sites": o.Sites, "backend": o.Solver, "solver_s": round3(o.Secs), "at": o.Pos})
				}
				continue
			}
			// failed or undecided
			if kf, ok := known[o.Name]; ok {
				nObl-- // not counted as a claimed obligation
				knownHit = append(knownHit, o.Name)
				txt := strings.TrimSpace(strings.TrimPrefix(kf.Text, "finding:"))
				txt = strings.TrimSpace(strings.TrimPrefix(txt, "property="+*prop))
				lines = append(lines, fmt.Sprintf("KNOWN-FINDING: property=%s %s", *prop, txt))
				continue
			}
			body := map[string]interface{}{"obligation": o.Name, "property": *prop, "kind": o.Kind, "clause": o.Src, "at": o.Pos, "status": o.Status}
			noInput := true
			if o.Failing != nil {
				body["solver"] = o.Failing.Solver
				body["attempts"] = o.Failing.Attempt
				body["solver_output"] = truncate(o.Failing.Output, 4000)
				if len(o.Failing.Values) > 0 {
					body["counterexample"] = o.Failing.Values
				}
			}
			rp := writeReplay(o.Name, body)
			if o.Failing != nil && o.Failing.Candidate {
				body["counterexample_kind"] = "candidate from the ground part of an undecided quantified query; believed only if the replay reproduces"
			}
			if (o.Status == "failed" || (o.Failing != nil && o.Failing.Candidate)) && o.Failing != nil && len(o.Failing.Values) > 0 {
				ok, detail := tryReplay(*verif, *root, o, rp)
				body["replay"] = detail
				if ok {
					noInput = false
				}
				writeReplay(o.Name, body)
			}
			fmt.Printf("obligation %s %s at %s: %s\n", o.Name, o.Status, o.Pos, o.Src)
			fail(o.Name, rp, noInput)
		}
	}
	// protocol frames: every writer of a protected word is under the protocol
	usedProtocols := map[string]bool{}
	for _, fc := range units {
		for _, pu := range fc.Protocols {
			usedProtocols[pu.Name] = true
		}
	}
	for name := range usedProtocols {
		pr := cs.Protocols[name]
		if pr == nil {
			continue
		}
		writers, missing := p.protocolFrame(pr)
		oname := "protocol." + name + ".frame"
		nObl++
		if len(missing) == 0 {
			nDis++
			backend["static scan"]++
			seen[oname] = &ObligResult{Name: oname, Status: "discharged", Kind: "frame"}
			ev.Coverage.Notes = append(ev.Coverage.Notes, fmt.Sprintf("protocol %s: writers of %s.%s = %v; exempt (assumed) = %v", name, pr.Struct, pr.Field, writers, pr.Exempt))
			for _, e := range pr.Exempt {
				ev.addAssumption("protocol " + name + ": writer " + e + " of " + pr.Struct + "." + pr.Field + " is exempt from the protocol obligations (its steps are assumed to respect the guarantee)")
			}
		} else {
			seen[oname] = &ObligResult{Name: oname, Status: "failed", Kind: "frame"}
			rp := writeReplay(oname, map[string]interface{}{"obligation": oname, "property": *prop, "status": "failed", "reason": "functions write the protected word without being verified under the protocol", "functions": missing})
			fmt.Printf("obligation %s failed: %v write %s.%s outside the protocol\n", oname, missing, pr.Struct, pr.Field)
			fail(oname, rp, true)
		}
	}
	// ledger
	if *updateLedger {
		var names []string
		for n, o := range seen {
			if o.Group == "cover" {
				continue
			}
			if o.Status == "discharged" {
				names = append(names, n)
			} else if _, ok := known[n]; ok {
				names = append(names, n)
			}
		}
		sort.Strings(names)
		os.MkdirAll(filepath.Dir(ledgerPath), 0755)
		b, _ := json.MarshalIndent(Ledger{Property: *prop, Obligations: names}, "", " ")
		os.WriteFile(ledgerPath, append(b, '\n'), 0644)
		ledger.Obligations = names
	}
	missing := 0
	for _, n := range ledger.Obligations {
		if _, ok := seen[n]; !ok {
			missing++
			rp := writeReplay(n, map[string]interface{}{"obligation": n, "property": *prop, "status": "missing", "reason": "an obligation claimed in the ledger was not generated from the current source (contract removed, function renamed or unit failed to translate)"})
			fmt.Printf("obligation %s is claimed in the ledger but was not generated\n", n)
			fail(n, rp, true)
		}
	}
	if len(ledger.Obligations) == 0 && !*updateLedger {
		rp := writeReplay("ledger", map[string]interface{}{"obligation": "ledger", "reason": "no ledger for this property"})
		fail("ledger", rp, true)
	}
	for n := range known {
		hit := false
		for _, k := range knownHit {
			if k == n {
				hit = true
			}
		}
		if !hit {
			ev.Coverage.Notes = append(ev.Coverage.Notes, "known finding "+n+" did not fail in this run (fixed or no longer generated)")
		}
	}
	ev.Coverage.Obligations = nObl
	ev.Coverage.Discharged = nDis
	ev.Coverage.ByBackend = backend
	ev.Coverage.SolverTimeS = map[string]float64{"sum": round3(solverTotal), "max": round3(solverMax), "wall": round3(solveWall), "load": round3(loadSecs), "generate": round3(genSecs)}
	ev.Coverage.Queries = len(all)
	ev.Coverage.CoversChecked = covers
	ev.Coverage.Canaries = canaries
	ev.Coverage.Samples = samples
	ev.Coverage.KnownFindings = knownHit
	ev.Coverage.LedgerSize = len(ledger.Obligations)
	ev.Coverage.CrossChecked = cross
	ev.Coverage.CrossDisagree = crossDisagree
	if len(crossDisagree) > 0 {
		for _, d := range crossDisagree {
			rp := writeReplay("crosscheck-"+d, map[string]interface{}{"obligation": d, "reason": "solvers disagree on this obligation"})
			fail(d, rp, true)
		}
	}
	// mechanical scan of contract files for unchecked assumptions
	var scan []string
	for k, n := range cs.Scan {
		scan = append(scan, fmt.Sprintf("%s x%d", k, n))
	}
	sort.Strings(scan)
	ev.Coverage.ContractScan = scan
	for _, fc := range cs.Funcs {
		if fc.Trusted && fc.Used {
			what := "assumed contract (trusted, body not verified): " + fc.Name
			if fc.Functype {
				what = "assumed interface/function-type contract: " + fc.Name
			}
			ev.addAssumption(what)
		}
	}
	for _, r := range runs {
		for k := range r.ur.Havocs {
			ev.addAssumption("call abstracted by havoc of the whole modelled heap (sound, no contract): " + k)
		}
	}
	ev.addAssumption("sync/atomic operations are sequentially consistent and indivisible; goroutine interleavings are not modelled by the sequential layer")
	ev.addAssumption("machine arithmetic is NOT treated as mathematical: every integer is a bit-vector of its declared width (int/uint = 64 bits)")
	ev.addAssumption("floating point operations are uninterpreted; strings are an uninterpreted sort with length and byte-at functions")
	sort.Strings(ev.Assumptions)
	return finish()
}

func truncate(s string, n int) string {
	if len(s) > n {
		return s[:n] + "…"
	}
	return s
}

func round3(x float64) float64 { return float64(int(x*1000+0.5)) / 1000 }

// crossCheck re-runs every unsat obligation on a solver other than the one that decided it.
func crossCheck(results []*QResult, timeout int, par int) (int, []string) {
	dir, err := os.MkdirTemp(scratchRoot(), "govc-x-")
	if err != nil {
		return 0, nil
	}
	defer os.RemoveAll(dir)
	type job struct {
		r *QResult
		i int
	}
	n := 0
	var disagree []string
	sem := make(chan struct{}, par)
	done := make(chan string, len(results))
	cnt := 0
	for i, r := range results {
		if r.Status != "unsat" || r.Q.Trivial || r.Q.Cover {
			continue
		}
		cnt++
		go func(i int, r *QResult) {
			sem <- struct{}{}
			defer func() { <-sem }()
			bad := ""
			for _, sp := range solvers {
				if sp.name == r.Solver {
					continue
				}
				st, _, _ := runSolverBG(sp, dir, 100000+i, r.Q.Script, timeout)
				if st == "sat" && !(strings.Contains(r.Q.Script, "(forall ") || strings.Contains(r.Q.Script, "(exists ")) {
					// (a model claimed for a quantified script is not checkable: see solveRace)
					bad = r.Q.Name + " (" + r.Solver + " unsat, " + sp.name + " sat)"
				}
				if st == "unsat" || st == "sat" {
					break
				}
			}
			done <- bad
		}(i, r)
	}
	for k := 0; k < cnt; k++ {
		if b := <-done; b != "" {
			disagree = append(disagree, b)
		}
		n++
	}
	return n, disagree
}
