package main

// Translation of contract expressions to SMT, type-directed by go/types.

import (
	"fmt"
	"go/constant"
	"go/token"
	"go/types"
	"math/big"
	"os"
	"strconv"
	"strings"

	"golang.org/x/tools/go/ssa"
)

type SVal struct {
	V      *Val
	T      types.Type
	Const  *big.Int // untyped integer constant
	Pkg    *types.Package
	Type   types.Type // the expression denotes a type (conversion target)
	Spec   *SpecFunc
	Ghost  *GhostHeap
	Nil    bool
	Bin    string     // builtin name
	CellOf types.Type // the binding is a cell (variable captured by reference): reads dereference it
}

type SEnv struct {
	fr      *Frame
	g       *Gen
	vars    map[string]*SVal
	heap    Heap
	old     Heap
	pkg     *types.Package
	result  *Val
	resultT types.Type
	locals  func(name string) *SVal
	where   string
	depth   int
	bound   map[string]bool // quantifier-bound names shadow locals
	pre     func(name string) *SVal
	preHeap   Heap               // heap on loop entry (for pre(expr) in loop invariants)
	rangeSeen map[int]string     // range-call ordinal -> seen-set term (only while its invariants are evaluated)
	rangeKeyT map[int]types.Type
}

func (fr *Frame) newSpecEnv(h, old Heap) *SEnv {
	var pkg *types.Package
	if fr.fn != nil && fr.fn.Pkg != nil {
		pkg = fr.fn.Pkg.Pkg
	} else if fr.fn != nil && fr.fn.Origin() != nil && fr.fn.Origin().Pkg != nil {
		pkg = fr.fn.Origin().Pkg.Pkg
	} else if fr.fn != nil && fr.fn.Parent() != nil && fr.fn.Parent().Pkg != nil {
		pkg = fr.fn.Parent().Pkg.Pkg
	}
	if pkg == nil {
		pkg = fr.g.curPkg
	}
	return &SEnv{fr: fr, g: fr.g, vars: map[string]*SVal{}, heap: h, old: old, pkg: pkg}
}

func (e *SEnv) fail(f string, a ...interface{}) {
	panic(genErr(fmt.Sprintf("contract error (%s): %s", e.where, fmt.Sprintf(f, a...))))
}

func (e *SEnv) child() *SEnv {
	n := *e
	n.vars = map[string]*SVal{}
	for k, v := range e.vars {
		n.vars[k] = v
	}
	n.bound = map[string]bool{}
	for k := range e.bound {
		n.bound[k] = true
	}
	return &n
}

// bindSig binds parameter names (receiver included) to the actual values.
func (e *SEnv) bindSig(sig *types.Signature, callee *ssa.Function, c *ssa.CallCommon, args []*Val) {
	i := 0
	if callee != nil {
		for j, p := range callee.Params {
			if j < len(args) {
				e.vars[p.Name()] = &SVal{V: args[j], T: p.Type()}
			}
		}
		// contracts from a package file may belong to the callee's package
		if callee.Pkg != nil {
			e.pkg = callee.Pkg.Pkg
		} else if callee.Origin() != nil && callee.Origin().Pkg != nil {
			e.pkg = callee.Origin().Pkg.Pkg
		}
		return
	}
	if c != nil && c.IsInvoke() {
		e.vars["self"] = &SVal{V: args[0], T: c.Value.Type()}
		i = 1
		if n, ok := c.Value.Type().(*types.Named); ok && n.Obj().Pkg() != nil {
			e.pkg = n.Obj().Pkg()
		}
	}
	for j := 0; j < sig.Params().Len(); j++ {
		p := sig.Params().At(j)
		if i+j < len(args) {
			nm := p.Name()
			if nm == "" || nm == "_" {
				nm = fmt.Sprintf("arg%d", j)
			}
			e.vars[nm] = &SVal{V: args[i+j], T: p.Type()}
			e.vars[fmt.Sprintf("arg%d", j)] = &SVal{V: args[i+j], T: p.Type()}
		}
	}
}

func (e *SEnv) bindResult(res *Val, t types.Type) {
	e.result = res
	e.resultT = t
}

func (e *SEnv) boolTerm(x *SX) string {
	v := e.tr(x)
	if v.T == nil || !isBool(v.T) {
		e.fail("expression %s is not boolean", x)
	}
	return v.V.T
}

func boolVal(t string) *SVal { return &SVal{V: &Val{T: t}, T: types.Typ[types.Bool]} }

// resolveType maps type text to a go/types type.
func (e *SEnv) resolveType(s string) types.Type {
	s = strings.TrimSpace(s)
	switch {
	case strings.HasPrefix(s, "*"):
		return types.NewPointer(e.resolveType(s[1:]))
	case strings.HasPrefix(s, "chan "):
		return types.NewChan(types.SendRecv, e.resolveType(s[5:]))
	case strings.HasPrefix(s, "[]"):
		return types.NewSlice(e.resolveType(s[2:]))
	case strings.HasPrefix(s, "["):
		i := strings.Index(s, "]")
		n, err := strconv.Atoi(s[1:i])
		if err != nil {
			e.fail("bad array type %s", s)
		}
		return types.NewArray(e.resolveType(s[i+1:]), int64(n))
	}
	if i := strings.Index(s, "."); i >= 0 {
		p := e.findPkg(s[:i])
		if p == nil {
			e.fail("unknown package %s in type %s", s[:i], s)
		}
		o := p.Scope().Lookup(s[i+1:])
		if tn, ok := o.(*types.TypeName); ok {
			return tn.Type()
		}
		e.fail("unknown type %s", s)
	}
	if o := types.Universe.Lookup(s); o != nil {
		if tn, ok := o.(*types.TypeName); ok {
			return tn.Type()
		}
	}
	if e.pkg != nil {
		if tn, ok := e.pkg.Scope().Lookup(s).(*types.TypeName); ok {
			return tn.Type()
		}
	}
	e.fail("unknown type %s", s)
	return nil
}

func (e *SEnv) findPkg(name string) *types.Package {
	if e.pkg != nil {
		if e.pkg.Name() == name {
			return e.pkg
		}
		for _, p := range e.pkg.Imports() {
			if p.Name() == name {
				return p
			}
		}
	}
	return e.g.P.pkgByName(name)
}

func (e *SEnv) isTypeName(s string) bool {
	defer func() { recover() }()
	ok := false
	func() {
		defer func() {
			if r := recover(); r != nil {
				ok = false
			}
		}()
		e.resolveType(s)
		ok = true
	}()
	return ok
}

// coerce gives an untyped constant the type t.
func (e *SEnv) coerce(v *SVal, t types.Type) *SVal {
	if v.Const == nil {
		return v
	}
	if w, _, ok := intInfo(t); ok {
		return &SVal{V: &Val{T: e.g.lit(v.Const, w)}, T: t}
	}
	e.fail("cannot use constant %s as %s", v.Const, t)
	return nil
}

func (e *SEnv) typed(v *SVal) *SVal {
	if v.Const != nil {
		return e.coerce(v, types.Typ[types.Int])
	}
	return v
}

func (e *SEnv) constOf(c *types.Const) *SVal {
	t := c.Type()
	val := c.Val()
	if b, ok := t.Underlying().(*types.Basic); ok && b.Info()&types.IsUntyped != 0 {
		if val.Kind() == constant.Int {
			bi, _ := new(big.Int).SetString(val.ExactString(), 10)
			return &SVal{Const: bi}
		}
		if val.Kind() == constant.String {
			return &SVal{V: &Val{T: e.g.strLit(constant.StringVal(val))}, T: types.Typ[types.String]}
		}
		if val.Kind() == constant.Bool {
			return boolVal(strconv.FormatBool(constant.BoolVal(val)))
		}
	}
	if w, _, ok := intInfo(t); ok {
		bi, _ := new(big.Int).SetString(constant.ToInt(val).ExactString(), 10)
		return &SVal{V: &Val{T: e.g.lit(bi, w)}, T: t}
	}
	if isString(t) {
		return &SVal{V: &Val{T: e.g.strLit(constant.StringVal(val))}, T: t}
	}
	if isBool(t) {
		return boolVal(strconv.FormatBool(constant.BoolVal(val)))
	}
	e.fail("unsupported constant %s", c.Name())
	return nil
}

func (e *SEnv) objVal(o types.Object) *SVal {
	switch x := o.(type) {
	case *types.Const:
		return e.constOf(x)
	case *types.Var:
		gl := e.g.P.globalOf(x)
		if gl == nil {
			e.fail("no SSA global for %s", x.Name())
		}
		if e.g.P.isFrozenGlobal(gl) {
			return &SVal{V: e.fr.wrap(e.g.P.frozenConst(e.g, gl), x.Type()), T: x.Type()}
		}
		ref := e.g.P.globalRef(gl)
		a := &Addr{Base: ref, T: x.Type()}
		return &SVal{V: e.fr.wrap(e.g.load(e.heap, a), x.Type()), T: x.Type()}
	case *types.TypeName:
		return &SVal{Type: x.Type()}
	case *types.PkgName:
		return &SVal{Pkg: x.Imported()}
	}
	e.fail("unsupported object %s", o)
	return nil
}

func (e *SEnv) tr(x *SX) *SVal {
	g := e.g
	switch x.Op {
	case "int":
		bi, ok := new(big.Int).SetString(x.Tok, 0)
		if !ok {
			e.fail("bad integer %s", x.Tok)
		}
		return &SVal{Const: bi}
	case "str":
		s, err := strconv.Unquote(x.Tok)
		if err != nil {
			e.fail("bad string %s", x.Tok)
		}
		return &SVal{V: &Val{T: g.strLit(s)}, T: types.Typ[types.String]}
	case "id":
		return e.ident(x)
	case "sel":
		return e.sel(x)
	case "idx":
		return e.index(x)
	case "slice":
		return e.sliceExpr(x)
	case "call":
		return e.callExpr(x)
	case "un":
		return e.unary(x)
	case "bin":
		return e.binary(x)
	case "lit":
		t := e.resolveType(x.Tok)
		st, ok := t.Underlying().(*types.Struct)
		if !ok || g.isOpaqueStruct(t) {
			e.fail("composite literal of non-struct %s", x.Tok)
		}
		if len(x.Args) == 0 {
			// T{}: the zero value
			return &SVal{V: &Val{T: g.zero(t)}, T: t}
		}
		if len(x.Args) != st.NumFields() {
			e.fail("composite literal %s needs %d positional fields", x.Tok, st.NumFields())
		}
		g.sortOf(t)
		var parts []string
		for i, a := range x.Args {
			v := e.coerceTo(e.tr(a), st.Field(i).Type())
			if v.T != nil && g.sortOf(v.T) != g.sortOf(st.Field(i).Type()) {
				e.fail("field %d of %s: have %s", i, x.Tok, v.T)
			}
			vt := v.V.T
			if vt == "" && v.V.A != nil {
				vt = g.ptrTerm(v.V.A)
			}
			parts = append(parts, vt)
		}
		if len(parts) == 0 {
			return &SVal{V: &Val{T: "mk$" + g.structName(t)}, T: t}
		}
		return &SVal{V: &Val{T: fmt.Sprintf("(mk$%s %s)", g.structName(t), strings.Join(parts, " "))}, T: t}
	case "assert":
		v := e.tr(x.Args[0])
		if _, ok := v.T.Underlying().(*types.Interface); !ok {
			e.fail("type assertion on non-interface %s", v.T)
		}
		t := e.resolveType(x.Tok)
		return &SVal{V: e.fr.wrap(g.unbox(t, fmt.Sprintf("(i_val %s)", v.V.T)), t), T: t}
	case "ite":
		c := e.boolTerm(x.Args[0])
		a, b := e.tr(x.Args[1]), e.tr(x.Args[2])
		a, b = e.unify(a, b)
		return &SVal{V: e.fr.wrap(ite(c, a.V.T, b.V.T), a.T), T: a.T}
	case "quant":
		n := e.child()
		var bs []string
		var facts []string
		for _, b := range x.Bind {
			t := e.resolveType(b.Type)
			name := "q$" + b.Name
			g.nfresh++
			name = fmt.Sprintf("%s!%d", name, g.nfresh)
			bs = append(bs, fmt.Sprintf("(%s %s)", name, g.sortOf(t)))
			n.vars[b.Name] = &SVal{V: e.fr.wrap(name, t), T: t}
			n.bound[b.Name] = true
			_ = facts
		}
		body := n.boolTerm(x.Args[0])
		var qnames []string
		for _, b := range x.Bind {
			qnames = append(qnames, n.vars[b.Name].V.T)
		}
		if pats := inferPatterns(body, qnames); pats != "" && x.Tok == "forall" && os.Getenv("GOVC_PATTERNS") != "" {
			return boolVal(fmt.Sprintf("(forall (%s) (! %s %s))", strings.Join(bs, " "), body, pats))
		}
		return boolVal(fmt.Sprintf("(%s (%s) %s)", x.Tok, strings.Join(bs, " "), body))
	}
	e.fail("unsupported expression %s", x)
	return nil
}

func (e *SEnv) ident(x *SX) *SVal {
	switch x.Tok {
	case "true", "false":
		return boolVal(x.Tok)
	case "nil":
		return &SVal{Nil: true}
	case "result":
		if e.result == nil {
			e.fail("result used outside a postcondition")
		}
		return &SVal{V: e.result, T: e.resultT}
	}
	if e.locals != nil {
		if _, bound := e.bound[x.Tok]; !bound {
			if v := e.locals(x.Tok); v != nil {
				return v
			}
		}
	}
	if v, ok := e.vars[x.Tok]; ok {
		if v.CellOf != nil {
			a := v.V.A
			if a == nil {
				a = &Addr{Base: v.V.T, T: v.CellOf}
			}
			return &SVal{V: e.fr.wrap(e.g.load(e.heap, a), v.CellOf), T: v.CellOf}
		}
		return v
	}
	switch x.Tok {
	case "me", "child":
		return &SVal{V: &Val{T: e.g.tid(x.Tok)}, T: types.Typ[types.Int]}
	}
	if sf, ok := e.g.P.Contracts.SpecFuncs[x.Tok]; ok {
		return &SVal{Spec: sf}
	}
	if gh, ok := e.g.P.Contracts.Ghosts[x.Tok]; ok {
		return &SVal{Ghost: gh}
	}
	switch x.Tok {
	case "len", "cap", "old", "has", "seen", "rseen", "closedcount", "recvcount", "wlocked", "rlocked", "lockcount", "received", "sent", "sentcount", "elems", "mapof", "typeis", "str_eq_bytes", "allocated", "fresh", "tagof", "card", "bytes_eq", "ptr":
		return &SVal{Bin: x.Tok}
	}
	if e.pkg != nil {
		if o := e.pkg.Scope().Lookup(x.Tok); o != nil {
			return e.objVal(o)
		}
	}
	if o := types.Universe.Lookup(x.Tok); o != nil {
		if tn, ok := o.(*types.TypeName); ok {
			return &SVal{Type: tn.Type()}
		}
	}
	if p := e.findPkg(x.Tok); p != nil {
		return &SVal{Pkg: p}
	}
	if strings.ContainsAny(x.Tok, "[]*") {
		return &SVal{Type: e.resolveType(x.Tok)}
	}
	e.fail("unknown identifier %s", x.Tok)
	return nil
}

func (e *SEnv) sel(x *SX) *SVal {
	g := e.g
	base := e.tr(x.Args[0])
	if base.Pkg != nil {
		o := base.Pkg.Scope().Lookup(x.Tok)
		if o == nil {
			e.fail("unknown %s.%s", base.Pkg.Name(), x.Tok)
		}
		return e.objVal(o)
	}
	if base.V != nil && base.V.Tup != nil {
		i, err := strconv.Atoi(x.Tok)
		if err != nil || i >= len(base.V.Tup) {
			e.fail("bad tuple index %s", x.Tok)
		}
		return &SVal{V: base.V.Tup[i], T: base.T.(*types.Tuple).At(i).Type()}
	}
	if base.T == nil {
		e.fail("selector %s on untyped expression", x.Tok)
	}
	if _, err := strconv.Atoi(x.Tok); err == nil {
		// result.0 on a single result
		return base
	}
	t := base.T
	// pointer to struct: heap access
	if p, ok := t.Underlying().(*types.Pointer); ok {
		st, ok := p.Elem().Underlying().(*types.Struct)
		if !ok {
			e.fail("selector %s on pointer to non-struct", x.Tok)
		}
		a := base.V.A
		if a == nil {
			a = &Addr{Base: base.V.T, T: p.Elem()}
		}
		fi, path := findField(p.Elem(), st, x.Tok)
		if fi < 0 {
			e.fail("no field %s in %s", x.Tok, p.Elem())
		}
		cur := a
		ct := p.Elem()
		for _, step := range path {
			cur = cur.extend(Sel{Field: step, StructT: ct})
			ct = ct.Underlying().(*types.Struct).Field(step).Type()
			if pp, ok := ct.Underlying().(*types.Pointer); ok && step != path[len(path)-1] {
				// embedded pointer: load it and continue from the new root
				ref := g.load(e.heap, cur)
				cur = &Addr{Base: ref, T: pp.Elem()}
				ct = pp.Elem()
			}
		}
		ft := cur.finalType()
		if g.isOpaqueStruct(ft) || isLockType(ft) {
			// opaque objects embedded by value are referred to by address
			return &SVal{V: &Val{A: cur}, T: types.NewPointer(ft)}
		}
		lv := e.fr.wrap(g.load(e.heap, cur), ft)
		if _, isStruct := ft.Underlying().(*types.Struct); isStruct && lv.A == nil {
			// a struct stored by value: remember where it lives (locks inside it are referred to by address)
			lv = &Val{T: lv.T, A: cur}
		}
		return &SVal{V: lv, T: ft}
	}
	if st, ok := t.Underlying().(*types.Struct); ok {
		fi, path := findField(t, st, x.Tok)
		if fi < 0 {
			e.fail("no field %s in %s", x.Tok, t)
		}
		if base.V.A != nil {
			cur := base.V.A
			ct := t
			for _, step := range path {
				cur = cur.extend(Sel{Field: step, StructT: ct})
				ct = ct.Underlying().(*types.Struct).Field(step).Type()
			}
			if g.isOpaqueStruct(ct) || isLockType(ct) {
				return &SVal{V: &Val{A: cur}, T: types.NewPointer(ct)}
			}
		}
		term := base.V.T
		ct := t
		for _, step := range path {
			term = g.getPath(term, ct, []Sel{{Field: step, StructT: ct}})
			ct = ct.Underlying().(*types.Struct).Field(step).Type()
		}
		return &SVal{V: e.fr.wrap(term, ct), T: ct}
	}
	e.fail("selector %s on %s", x.Tok, t)
	return nil
}

func isLockType(t types.Type) bool {
	s := t.String()
	return s == "sync.Mutex" || s == "sync.RWMutex" || s == "sync.Map"
}

// findField finds a (possibly promoted) field; path lists field indices through embedded structs.
func findField(t types.Type, st *types.Struct, name string) (int, []int) {
	for i := 0; i < st.NumFields(); i++ {
		if st.Field(i).Name() == name {
			return i, []int{i}
		}
	}
	for i := 0; i < st.NumFields(); i++ {
		f := st.Field(i)
		if !f.Embedded() {
			continue
		}
		ft := f.Type()
		if p, ok := ft.Underlying().(*types.Pointer); ok {
			ft = p.Elem()
		}
		if est, ok := ft.Underlying().(*types.Struct); ok {
			if j, path := findField(ft, est, name); j >= 0 {
				return j, append([]int{i}, path...)
			}
		}
	}
	return -1, nil
}

func (e *SEnv) idx64(v *SVal) string {
	v = e.typed(v)
	return e.fr.to64(v.V.T, v.T)
}

func (e *SEnv) index(x *SX) *SVal {
	g := e.g
	base := e.tr(x.Args[0])
	switch t := base.T.Underlying().(type) {
	case *types.Slice:
		i := e.idx64(e.tr(x.Args[1]))
		name, srt := g.elemArrName(t.Elem())
		arr := g.heapArr(e.heap, name, srt)
		term := fmt.Sprintf("(select (select %s (s_arr %s)) %s)", arr, base.V.T, g.iadd("(s_off "+base.V.T+")", i))
		return &SVal{V: e.fr.wrap(term, t.Elem()), T: t.Elem()}
	case *types.Array:
		i := e.idx64(e.tr(x.Args[1]))
		return &SVal{V: e.fr.wrap(fmt.Sprintf("(select %s %s)", base.V.T, i), t.Elem()), T: t.Elem()}
	case *types.Map:
		k := e.tr(x.Args[1])
		k = e.coerceTo(k, t.Key())
		d, v, _ := g.mapArrNames(t)
		dom := fmt.Sprintf("(and (not (= %s 0)) (select (select %s %s) %s))", base.V.T, g.heapArr(e.heap, d, g.heapSort[d]), base.V.T, k.V.T)
		term := ite(dom, fmt.Sprintf("(select (select %s %s) %s)", g.heapArr(e.heap, v, g.heapSort[v]), base.V.T, k.V.T), g.zero(t.Elem()))
		return &SVal{V: e.fr.wrap(term, t.Elem()), T: t.Elem()}
	case *types.Basic:
		if isString(base.T) {
			i := e.idx64(e.tr(x.Args[1]))
			return &SVal{V: &Val{T: fmt.Sprintf("(sat %s %s)", base.V.T, i)}, T: types.Typ[types.Uint8]}
		}
	case *types.Pointer:
		if at, ok := t.Elem().Underlying().(*types.Array); ok {
			i := e.idx64(e.tr(x.Args[1]))
			a := base.V.A
			var na *Addr
			if a.Kind == 0 && len(a.Sels) == 0 {
				na = &Addr{Kind: 1, Base: a.Base, Idx: i, T: at.Elem()}
			} else {
				na = a.extend(Sel{Index: i, ArrT: at})
			}
			return &SVal{V: e.fr.wrap(g.load(e.heap, na), at.Elem()), T: at.Elem()}
		}
	}
	e.fail("cannot index %s", base.T)
	return nil
}

func (e *SEnv) sliceExpr(x *SX) *SVal {
	base := e.tr(x.Args[0])
	if _, ok := base.T.Underlying().(*types.Slice); !ok {
		e.fail("slice expression on %s", base.T)
	}
	s := base.V.T
	g := e.g
	lo := g.ilit(0)
	hi := fmt.Sprintf("(s_len %s)", s)
	if x.Args[1] != nil {
		lo = e.idx64(e.tr(x.Args[1]))
	}
	if x.Args[2] != nil {
		hi = e.idx64(e.tr(x.Args[2]))
	}
	return &SVal{V: &Val{T: fmt.Sprintf("(mk_slice (s_arr %s) %s %s %s)", s, g.iadd("(s_off "+s+")", lo), g.isub(hi, lo), g.isub("(s_cap "+s+")", lo))}, T: base.T}
}

func (e *SEnv) coerceTo(v *SVal, t types.Type) *SVal {
	if v.Const != nil {
		return e.coerce(v, t)
	}
	if v.Nil {
		return &SVal{V: e.fr.wrap(e.g.zero(t), t), T: t}
	}
	return v
}

func (e *SEnv) unify(a, b *SVal) (*SVal, *SVal) {
	switch {
	case a.Const != nil && b.Const != nil:
		return e.typed(a), e.typed(b)
	case a.Const != nil || a.Nil:
		if b.T == nil {
			e.fail("cannot type operand")
		}
		return e.coerceTo(a, b.T), b
	case b.Const != nil || b.Nil:
		if a.T == nil {
			e.fail("cannot type operand")
		}
		return a, e.coerceTo(b, a.T)
	}
	// comparing an interface value with a concrete one boxes the concrete side (as Go does)
	if a.T != nil && b.T != nil {
		_, ai := a.T.Underlying().(*types.Interface)
		_, bi := b.T.Underlying().(*types.Interface)
		if ai && !bi {
			return a, e.convertTo(b, a.T)
		}
		if bi && !ai {
			return e.convertTo(a, b.T), b
		}
	}
	return a, b
}

func (e *SEnv) unary(x *SX) *SVal {
	switch x.Tok {
	case "!":
		return boolVal(not(e.boolTerm(x.Args[0])))
	case "-":
		v := e.tr(x.Args[0])
		if v.Const != nil {
			return &SVal{Const: new(big.Int).Neg(v.Const)}
		}
		if e.g.intMode {
			return &SVal{V: &Val{T: fmt.Sprintf("(- %s)", v.V.T)}, T: v.T}
		}
		return &SVal{V: &Val{T: fmt.Sprintf("(bvneg %s)", v.V.T)}, T: v.T}
	case "^":
		v := e.typed(e.tr(x.Args[0]))
		if e.g.intMode {
			e.fail("bitwise complement is not available in int mode specs")
		}
		return &SVal{V: &Val{T: fmt.Sprintf("(bvnot %s)", v.V.T)}, T: v.T}
	case "*":
		v := e.tr(x.Args[0])
		p, ok := v.T.Underlying().(*types.Pointer)
		if !ok {
			e.fail("dereference of non-pointer %s", v.T)
		}
		a := v.V.A
		if a == nil {
			a = &Addr{Base: v.V.T, T: p.Elem()}
		}
		return &SVal{V: e.fr.wrap(e.g.load(e.heap, a), p.Elem()), T: p.Elem()}
	}
	e.fail("unary %s", x.Tok)
	return nil
}

func (e *SEnv) binary(x *SX) *SVal {
	switch x.Tok {
	case "&&":
		return boolVal(and(e.boolTerm(x.Args[0]), e.boolTerm(x.Args[1])))
	case "||":
		return boolVal(or(e.boolTerm(x.Args[0]), e.boolTerm(x.Args[1])))
	case "==>":
		return boolVal(implies(e.boolTerm(x.Args[0]), e.boolTerm(x.Args[1])))
	case "<==>":
		return boolVal(fmt.Sprintf("(= %s %s)", e.boolTerm(x.Args[0]), e.boolTerm(x.Args[1])))
	}
	a, b := e.tr(x.Args[0]), e.tr(x.Args[1])
	if a.Const != nil && b.Const != nil {
		r := new(big.Int)
		switch x.Tok {
		case "+":
			return &SVal{Const: r.Add(a.Const, b.Const)}
		case "-":
			return &SVal{Const: r.Sub(a.Const, b.Const)}
		case "*":
			return &SVal{Const: r.Mul(a.Const, b.Const)}
		case "/":
			return &SVal{Const: r.Quo(a.Const, b.Const)}
		case "%":
			return &SVal{Const: r.Rem(a.Const, b.Const)}
		case "<<":
			return &SVal{Const: r.Lsh(a.Const, uint(b.Const.Uint64()))}
		case ">>":
			return &SVal{Const: r.Rsh(a.Const, uint(b.Const.Uint64()))}
		case "&":
			return &SVal{Const: r.And(a.Const, b.Const)}
		case "|":
			return &SVal{Const: r.Or(a.Const, b.Const)}
		case "^":
			return &SVal{Const: r.Xor(a.Const, b.Const)}
		}
		c := a.Const.Cmp(b.Const)
		res := map[string]bool{"==": c == 0, "!=": c != 0, "<": c < 0, "<=": c <= 0, ">": c > 0, ">=": c >= 0}[x.Tok]
		return boolVal(strconv.FormatBool(res))
	}
	if e.g.intMode {
		return e.binaryInt(x, a, b)
	}
	if x.Tok == "<<" || x.Tok == ">>" {
		a = e.typed(a)
		w, signed, ok := intInfo(a.T)
		if !ok {
			e.fail("shift of %s", a.T)
		}
		var cnt string
		cw := 64
		if b.Const != nil {
			cnt = bvLit(b.Const, 64)
		} else {
			cnt = b.V.T
			cw, _, _ = intInfo(b.T)
		}
		return &SVal{V: &Val{T: shiftTerm(x.Tok == "<<", signed, w, a.V.T, cnt, cw)}, T: a.T}
	}
	a, b = e.unify(a, b)
	at, bt := a.V.T, b.V.T
	if at == "" && a.V.A != nil {
		at = e.g.ptrTerm(a.V.A)
	}
	if bt == "" && b.V.A != nil {
		bt = e.g.ptrTerm(b.V.A)
	}
	switch x.Tok {
	case "==":
		if e.g.sortOf(a.T) != e.g.sortOf(b.T) {
			e.fail("comparison of %s and %s in %s", a.T, b.T, x)
		}
		return boolVal(fmt.Sprintf("(= %s %s)", at, bt))
	case "!=":
		if e.g.sortOf(a.T) != e.g.sortOf(b.T) {
			e.fail("comparison of %s and %s in %s", a.T, b.T, x)
		}
		return boolVal(fmt.Sprintf("(not (= %s %s))", at, bt))
	}
	w, signed, ok := intInfo(a.T)
	if !ok {
		e.fail("operator %s on %s", x.Tok, a.T)
	}
	if w2, _, _ := intInfo(b.T); w2 != w {
		e.fail("operands of %s have different widths in %s (%s vs %s)", x.Tok, x, a.T, b.T)
	}
	pick := func(s, u string) string {
		if signed {
			return s
		}
		return u
	}
	switch x.Tok {
	case "<":
		return boolVal(fmt.Sprintf("(%s %s %s)", pick("bvslt", "bvult"), at, bt))
	case "<=":
		return boolVal(fmt.Sprintf("(%s %s %s)", pick("bvsle", "bvule"), at, bt))
	case ">":
		return boolVal(fmt.Sprintf("(%s %s %s)", pick("bvsgt", "bvugt"), at, bt))
	case ">=":
		return boolVal(fmt.Sprintf("(%s %s %s)", pick("bvsge", "bvuge"), at, bt))
	}
	op := map[string]string{"+": "bvadd", "-": "bvsub", "*": "bvmul", "/": pick("bvsdiv", "bvudiv"), "%": pick("bvsrem", "bvurem"), "&": "bvand", "|": "bvor", "^": "bvxor"}[x.Tok]
	if x.Tok == "&^" {
		return &SVal{V: &Val{T: fmt.Sprintf("(bvand %s (bvnot %s))", at, bt)}, T: a.T}
	}
	if op == "" {
		e.fail("operator %s", x.Tok)
	}
	return &SVal{V: &Val{T: fmt.Sprintf("(%s %s %s)", op, at, bt)}, T: a.T}
}

// binaryInt: spec arithmetic on mathematical integers (no wrap-around, no obligations).
func (e *SEnv) binaryInt(x *SX, a, b *SVal) *SVal {
	if x.Tok == "<<" || x.Tok == ">>" {
		if b.Const == nil {
			e.fail("shift by a non-constant in int mode")
		}
		a = e.typed(a)
		p := pow2(uint(b.Const.Uint64())).String()
		if x.Tok == "<<" {
			return &SVal{V: &Val{T: "(* " + a.V.T + " " + p + ")"}, T: a.T}
		}
		return &SVal{V: &Val{T: "(div " + a.V.T + " " + p + ")"}, T: a.T}
	}
	a, b = e.unify(a, b)
	at, bt := a.V.T, b.V.T
	if at == "" && a.V.A != nil {
		at = e.g.ptrTerm(a.V.A)
	}
	if bt == "" && b.V.A != nil {
		bt = e.g.ptrTerm(b.V.A)
	}
	switch x.Tok {
	case "==", "!=":
		if e.g.sortOf(a.T) != e.g.sortOf(b.T) {
			e.fail("comparison of %s and %s in %s", a.T, b.T, x)
		}
		if x.Tok == "==" {
			return boolVal(fmt.Sprintf("(= %s %s)", at, bt))
		}
		return boolVal(fmt.Sprintf("(not (= %s %s))", at, bt))
	}
	if _, _, ok := intInfo(a.T); !ok {
		e.fail("operator %s on %s", x.Tok, a.T)
	}
	switch x.Tok {
	case "<", "<=", ">", ">=":
		return boolVal(fmt.Sprintf("(%s %s %s)", x.Tok, at, bt))
	case "+", "-", "*":
		return &SVal{V: &Val{T: fmt.Sprintf("(%s %s %s)", x.Tok, at, bt)}, T: a.T}
	case "/":
		return &SVal{V: &Val{T: truncDiv(at, bt)}, T: a.T}
	case "%":
		return &SVal{V: &Val{T: fmt.Sprintf("(- %s (* %s %s))", at, bt, truncDiv(at, bt))}, T: a.T}
	case "&":
		if b.Const != nil {
			if k, ok := isMask(b.Const); ok {
				return &SVal{V: &Val{T: "(mod " + at + " " + pow2(k).String() + ")"}, T: a.T}
			}
		}
	}
	e.fail("operator %s is not available in int mode specs", x.Tok)
	return nil
}

func (e *SEnv) callExpr(x *SX) *SVal {
	g := e.g
	fn := x.Args[0]
	args := x.Args[1:]
	// old(e)
	if fn.Op == "id" && fn.Tok == "old" {
		if mentionsResult(args[0]) {
			e.fail("result used inside old(...): it would be read in the pre-state heap; bind it with a quantified variable instead (%s)", x)
		}
		n := e.child()
		n.heap = e.old
		if e.locals != nil {
			// inside old(), a parameter name denotes its value on entry, not a later reassignment
			outer := e.locals
			vars := e.vars
			n.locals = func(name string) *SVal {
				if _, isParam := vars[name]; isParam {
					return nil
				}
				return outer(name)
			}
		}
		return n.tr(args[0])
	}
	if fn.Op == "id" && fn.Tok == "pre" {
		if e.pre == nil || len(args) != 1 {
			e.fail("pre(e) is only available in loop invariants")
		}
		if args[0].Op == "id" {
			if v := e.pre(args[0].Tok); v != nil {
				return v
			}
			return e.tr(args[0]) // variable not modified by the loop
		}
		// pre(expr): the expression in the state on loop entry (loop variables at their entry values)
		if e.preHeap == nil {
			e.fail("pre(expr) is not available here")
		}
		n := e.child()
		n.heap = e.preHeap
		outer := e.locals
		pre := e.pre
		n.locals = func(name string) *SVal {
			if v := pre(name); v != nil {
				return v
			}
			if outer != nil {
				return outer(name)
			}
			return nil
		}
		return n.tr(args[0])
	}
	f := e.tr(fn)
	switch {
	case f.Type != nil:
		// conversion
		if len(args) != 1 {
			e.fail("conversion needs one argument")
		}
		v := e.tr(args[0])
		return e.convertTo(v, f.Type)
	case f.Spec != nil:
		return e.specCall(f.Spec, args)
	case f.Ghost != nil:
		return e.ghostRead(f.Ghost, args)
	case f.Bin != "":
		return e.builtinSpec(f.Bin, args, x)
	}
	_ = g
	e.fail("cannot call %s", fn)
	return nil
}

func (e *SEnv) convertTo(v *SVal, t types.Type) *SVal {
	if v.Const != nil {
		return e.coerce(v, t)
	}
	if v.Nil {
		return e.coerceTo(v, t)
	}
	if _, toIface := t.Underlying().(*types.Interface); toIface {
		if _, fromIface := v.T.Underlying().(*types.Interface); fromIface {
			return &SVal{V: v.V, T: t}
		}
		vt := v.V.T
		if vt == "" && v.V.A != nil {
			vt = e.g.ptrTerm(v.V.A)
		}
		return &SVal{V: &Val{T: fmt.Sprintf("(mk_iface %s %s)", e.g.typeTag(v.T), e.g.box(v.T, vt))}, T: t}
	}
	fw, fs, fok := intInfo(v.T)
	tw, _, tok := intInfo(t)
	if fok && tok {
		if e.g.intMode {
			return &SVal{V: &Val{T: v.V.T}, T: t}
		}
		return &SVal{V: &Val{T: convInt(v.V.T, fw, fs, tw)}, T: t}
	}
	if e.g.sortOf(v.T) == e.g.sortOf(t) {
		return &SVal{V: e.fr.wrap(v.V.T, t), T: t}
	}
	e.fail("conversion from %s to %s", v.T, t)
	return nil
}

func (e *SEnv) specCall(sf *SpecFunc, args []*SX) *SVal {
	g := e.g
	if len(args) != len(sf.Params) {
		e.fail("spec func %s expects %d arguments", sf.Name, len(sf.Params))
	}
	// parameter types are resolved in the package that declared the spec function
	te := e.child()
	if sf.PkgPath != "" {
		if p := g.P.pkgByPath(sf.PkgPath); p != nil {
			te.pkg = p
		}
	}
	var vals []*SVal
	for i, a := range args {
		v := e.tr(a)
		pt := te.resolveType(sf.Params[i].Type)
		v = e.coerceTo(v, pt)
		if v.T != nil && g.sortOf(v.T) != g.sortOf(pt) {
			e.fail("argument %d of %s: have %s, want %s", i+1, sf.Name, v.T, pt)
		}
		vals = append(vals, &SVal{V: v.V, T: pt})
	}
	rt := te.resolveType(sf.Ret)
	if sf.Uninterp {
		var sorts, terms []string
		for _, v := range vals {
			sorts = append(sorts, g.sortOf(v.T))
			t := v.V.T
			if t == "" && v.V.A != nil {
				t = g.ptrTerm(v.V.A)
			}
			terms = append(terms, t)
		}
		name := "spec$" + sf.Name
		g.decl("fun:"+name, fmt.Sprintf("(declare-fun %s (%s) %s)", name, strings.Join(sorts, " "), g.sortOf(rt)))
		if len(terms) == 0 {
			return &SVal{V: e.fr.wrap(name, rt), T: rt}
		}
		return &SVal{V: e.fr.wrap(fmt.Sprintf("(%s %s)", name, strings.Join(terms, " ")), rt), T: rt}
	}
	if e.depth > 12 {
		e.fail("spec func recursion too deep at %s", sf.Name)
	}
	n := te.child()
	n.depth = e.depth + 1
	n.vars = map[string]*SVal{}
	n.locals = nil
	n.heap, n.old = e.heap, e.old
	for i, p := range sf.Params {
		n.vars[p.Name] = vals[i]
	}
	r := n.tr(sf.Body)
	r = n.coerceTo(r, rt)
	return &SVal{V: r.V, T: rt}
}

func (e *SEnv) ghostName(gh *GhostHeap) (string, string, []types.Type, types.Type) {
	g := e.g
	te := e.child()
	if gh.PkgPath != "" {
		if p := g.P.pkgByPath(gh.PkgPath); p != nil {
			te.pkg = p
		}
	}
	var pts []types.Type
	rt := te.resolveType(gh.Ret)
	srt := g.sortOf(rt)
	for i := len(gh.Params) - 1; i >= 0; i-- {
		pt := te.resolveType(gh.Params[i].Type)
		pts = append([]types.Type{pt}, pts...)
		srt = "(Array " + g.sortOf(pt) + " " + srt + ")"
	}
	name := "G$" + gh.Name
	g.heapSort[name] = srt
	return name, srt, pts, rt
}

func (e *SEnv) ghostRead(gh *GhostHeap, args []*SX) *SVal {
	g := e.g
	name, srt, pts, rt := e.ghostName(gh)
	if len(args) != len(pts) {
		e.fail("ghost %s expects %d arguments", gh.Name, len(pts))
	}
	t := g.heapArr(e.heap, name, srt)
	for i, a := range args {
		v := e.coerceTo(e.tr(a), pts[i])
		at := v.V.T
		if at == "" && v.V.A != nil {
			at = g.ptrTerm(v.V.A)
		}
		t = fmt.Sprintf("(select %s %s)", t, at)
	}
	return &SVal{V: e.fr.wrap(t, rt), T: rt}
}

func (e *SEnv) builtinSpec(name string, args []*SX, x *SX) *SVal {
	g := e.g
	intT := types.Typ[types.Int]
	switch name {
	case "len":
		v := e.tr(args[0])
		switch t := v.T.Underlying().(type) {
		case *types.Slice:
			return &SVal{V: &Val{T: fmt.Sprintf("(s_len %s)", v.V.T)}, T: intT}
		case *types.Basic:
			return &SVal{V: &Val{T: fmt.Sprintf("(slen %s)", v.V.T)}, T: intT}
		case *types.Map:
			_, _, c := g.mapArrNames(t)
			closed := true
			for name := range e.bound {
				if bv, ok := e.vars[name]; ok && bv.V != nil && strings.Contains(v.V.T, bv.V.T) {
					closed = false
				}
			}
			if closed {
				e.fr.mapLenFacts(t, v.V.T, e.heap)
			}
			return &SVal{V: &Val{T: fmt.Sprintf("(ite (= %s 0) %s (select %s %s))", v.V.T, g.ilit(0), g.heapArr(e.heap, c, g.heapSort[c]), v.V.T)}, T: intT}
		case *types.Array:
			return &SVal{Const: big.NewInt(t.Len())}
		}
		e.fail("len of %s", v.T)
	case "cap":
		v := e.tr(args[0])
		return &SVal{V: &Val{T: fmt.Sprintf("(s_cap %s)", v.V.T)}, T: intT}
	case "has": // has(m, k)
		m := e.tr(args[0])
		mt, ok := m.T.Underlying().(*types.Map)
		if !ok {
			e.fail("has() on %s", m.T)
		}
		k := e.coerceTo(e.tr(args[1]), mt.Key())
		d, _, _ := g.mapArrNames(mt)
		return boolVal(fmt.Sprintf("(and (not (= %s 0)) (select (select %s %s) %s))", m.V.T, g.heapArr(e.heap, d, g.heapSort[d]), m.V.T, k.V.T))
	case "sent": // sent(ch, v): v was put on channel ch by a send of this function (or a callee under contract)
		if len(args) != 2 {
			e.fail("sent(ch, v)")
		}
		c := e.tr(args[0])
		ct, ok := c.T.Underlying().(*types.Chan)
		if !ok {
			e.fail("sent() on %s", c.T)
		}
		v := e.coerceTo(e.tr(args[1]), ct.Elem())
		rn, rs := g.sndName(ct.Elem())
		return boolVal(fmt.Sprintf("(select (select %s %s) %s)", g.heapArr(e.heap, rn, rs), c.V.T, v.V.T))
	case "sentcount": // sentcount(ch): number of sends on ch so far (ghost)
		c := e.tr(args[0])
		if _, ok := c.T.Underlying().(*types.Chan); !ok {
			e.fail("sentcount() on %s", c.T)
		}
		cn, cs := g.sndCountName()
		return &SVal{V: &Val{T: fmt.Sprintf("(select %s %s)", g.heapArr(e.heap, cn, cs), c.V.T)}, T: intT}
	case "received": // received(ch, v): v was taken from channel ch by a receive of this function
		if len(args) != 2 {
			e.fail("received(ch, v)")
		}
		c := e.tr(args[0])
		ct, ok := c.T.Underlying().(*types.Chan)
		if !ok {
			e.fail("received() on %s", c.T)
		}
		v := e.coerceTo(e.tr(args[1]), ct.Elem())
		rn, rs := g.rcvName(ct.Elem())
		return boolVal(fmt.Sprintf("(select (select %s %s) %s)", g.heapArr(e.heap, rn, rs), c.V.T, v.V.T))
	case "seen": // seen(K, k): key k was already produced by the K-th map range of the function
		kc := e.tr(args[0])
		if kc.Const == nil {
			e.fail("seen(K, key): K must be a constant ordinal")
		}
		r := e.fr.nthMapRange(int(kc.Const.Int64()))
		if r == nil {
			e.fail("no map range #%s", kc.Const)
		}
		mt := r.X.Type().Underlying().(*types.Map)
		k := e.coerceTo(e.tr(args[1]), mt.Key())
		sn := e.fr.seenName(r)
		return boolVal(fmt.Sprintf("(select %s %s)", g.heapArr(e.heap, sn, g.heapSort[sn]), k.V.T))
	case "rseen": // rseen(K, k): key k was already passed to the callback of the K-th Range(func...) call
		kc := e.tr(args[0])
		if kc.Const == nil {
			e.fail("rseen(K, key): K must be a constant ordinal")
		}
		ord := int(kc.Const.Int64())
		st, ok := e.rangeSeen[ord]
		if !ok {
			e.fail("rseen(%d, ..) is only meaningful in the invariants of range call %d", ord, ord)
		}
		k := e.coerceTo(e.tr(args[1]), e.rangeKeyT[ord])
		return boolVal(fmt.Sprintf("(select %s %s)", st, k.V.T))
	case "wlocked", "rlocked", "lockcount": // lock ghosts of this thread, by mutex address
		v := e.tr(args[0])
		mu := e.refTerm(v)
		switch name {
		case "wlocked":
			return boolVal(e.fr.lockHeld(mu, e.heap, true))
		case "rlocked":
			rn, rs := g.lockArr("R")
			return boolVal(fmt.Sprintf("(select %s %s)", g.heapArr(e.heap, rn, rs), mu))
		}
		cn, cs := g.lockArr("N")
		return &SVal{V: &Val{T: fmt.Sprintf("(select %s %s)", g.heapArr(e.heap, cn, cs), mu)}, T: intT}
	case "recvcount": // recvcount(ch): number of receives from ch completed so far (ghost)
		c := e.tr(args[0])
		if _, ok := c.T.Underlying().(*types.Chan); !ok {
			e.fail("recvcount() on %s", c.T)
		}
		cn, cs := g.rcvCountName()
		return &SVal{V: &Val{T: fmt.Sprintf("(select %s %s)", g.heapArr(e.heap, cn, cs), c.V.T)}, T: intT}
	case "closedcount": // closedcount(ch): number of close(ch) executed so far (ghost)
		c := e.tr(args[0])
		if _, ok := c.T.Underlying().(*types.Chan); !ok {
			e.fail("closedcount() on %s", c.T)
		}
		cn, cs := g.closedName()
		return &SVal{V: &Val{T: fmt.Sprintf("(select %s %s)", g.heapArr(e.heap, cn, cs), c.V.T)}, T: intT}
	case "typeis": // typeis(iface, T)
		v := e.tr(args[0])
		tt := e.resolveType(strings.ReplaceAll(args[1].String(), " ", ""))
		return boolVal(fmt.Sprintf("(= (i_tag %s) %s)", v.V.T, g.typeTag(tt)))
	case "allocated": // allocated(p): p was allocated before function entry
		v := e.tr(args[0])
		return boolVal(fmt.Sprintf("(<= %s %s)", e.refTerm(v), e.fr.allocOf(e.old)))
	case "fresh": // fresh(p): allocated during this call
		v := e.tr(args[0])
		return boolVal(fmt.Sprintf("(> %s %s)", e.refTerm(v), e.fr.allocOf(e.old)))
	case "bytes_eq": // bytes_eq(str, slice): same length and content
		s := e.tr(args[0])
		b := e.tr(args[1])
		sl, ok := b.T.Underlying().(*types.Slice)
		if !ok || !isString(s.T) {
			e.fail("bytes_eq(string, []byte)")
		}
		nm, srt := g.elemArrName(sl.Elem())
		arr := g.heapArr(e.heap, nm, srt)
		g.nfresh++
		q := fmt.Sprintf("q$i!%d", g.nfresh)
		return boolVal(fmt.Sprintf("(and (= (slen %s) (s_len %s)) (forall ((%s %s)) (! (=> %s (= (sat %s %s) (select (select %s (s_arr %s)) %s))) :pattern ((sat %s %s)))))",
			s.V.T, b.V.T, q, g.IS(), g.inRange(q, "(slen "+s.V.T+")"), s.V.T, q, arr, b.V.T, g.iadd("(s_off "+b.V.T+")", q), s.V.T, q))
	case "ptr":
		v := e.tr(args[0])
		return &SVal{V: &Val{T: e.refTerm(v)}, T: types.Typ[types.UnsafePointer]}
	}
	e.fail("builtin %s not usable here (%s)", name, x)
	return nil
}

func (e *SEnv) refTerm(v *SVal) string {
	if v.V.A != nil {
		return e.g.ptrTerm(v.V.A)
	}
	if sl, ok := v.T.Underlying().(*types.Slice); ok {
		_ = sl
		return fmt.Sprintf("(s_arr %s)", v.V.T)
	}
	return v.V.T
}


// anyofField recognises the modifies target anyof(T).f: field f of every object of struct type T
// (used for statistics counters and for functions that touch objects of a type reached by name).
func (e *SEnv) anyofField(m *SX) (types.Type, int, bool) {
	if m.Op != "sel" || len(m.Args) != 1 || m.Args[0].Op != "call" || len(m.Args[0].Args) != 2 || m.Args[0].Args[0].Op != "id" || m.Args[0].Args[0].Tok != "anyof" {
		return nil, 0, false
	}
	t := e.resolveType(strings.ReplaceAll(m.Args[0].Args[1].String(), " ", ""))
	st, ok := t.Underlying().(*types.Struct)
	if !ok {
		e.fail("anyof(%s): not a struct type", m.Args[0].Args[1])
	}
	for i := 0; i < st.NumFields(); i++ {
		if st.Field(i).Name() == m.Tok {
			return t, i, true
		}
	}
	e.fail("anyof(%s).%s: no such field", m.Args[0].Args[1], m.Tok)
	return nil, 0, false
}

// havocTarget havocs one modifies target in heap nh (evaluated in the pre-state e.heap).
func (e *SEnv) havocTarget(m *SX, nh Heap) Heap {
	g := e.g
	if t, fi, ok := e.anyofField(m); ok {
		n, srt := g.fieldArrName(t, fi)
		g.heapSort[n] = srt
		g.heapArr(nh, n, srt)
		nh2 := nh.clone()
		nh2[n] = g.fresh(n, srt)
		g.closureAxiomAt(n, nh2[n], srt, e.fr.allocOf(nh))
		return nh2
	}
	switch m.Op {
	case "sel":
		base := e.tr(m.Args[0])
		if base.T != nil {
			if p, ok := base.T.Underlying().(*types.Pointer); ok {
				if st, ok := p.Elem().Underlying().(*types.Struct); ok {
					fi, path := findField(p.Elem(), st, m.Tok)
					if fi < 0 || len(path) != 1 {
						e.fail("modifies: field %s not found directly in %s", m.Tok, p.Elem())
					}
					a := base.V.A
					if a == nil {
						a = &Addr{Base: base.V.T, T: p.Elem()}
					}
					a = a.extend(Sel{Field: fi, StructT: p.Elem()})
					nv := g.fresh("mod$"+m.Tok, g.sortOf(st.Field(fi).Type()))
					// the new value is a value of the field's type: lengths are lengths (no claim about
					// which array it points into: the callee may have allocated it)
					switch ft := st.Field(fi).Type().Underlying().(type) {
					case *types.Slice:
						z := g.ilit(0)
						e.fr.assume(and(g.ile(z, "(s_len "+nv+")"), g.ile("(s_len "+nv+")", "(s_cap "+nv+")"), g.ile(z, "(s_off "+nv+")"),
							g.ile("(s_cap "+nv+")", g.maxLen()), g.ile("(s_off "+nv+")", g.maxLen())), "type facts of modified slice field")
					case *types.Basic:
						if isString(ft) {
							e.fr.assume(and(g.ile(g.ilit(0), "(slen "+nv+")"), g.ile("(slen "+nv+")", g.maxLen())), "type facts of modified string field")
						}
					}
					return g.store(nh, a, nv)
				}
			}
		}
	case "un":
		if m.Tok == "*" {
			v := e.tr(m.Args[0])
			p, ok := v.T.Underlying().(*types.Pointer)
			if !ok {
				e.fail("modifies *x: x is not a pointer")
			}
			a := v.V.A
			if a == nil {
				a = &Addr{Base: v.V.T, T: p.Elem()}
			}
			if at, ok := p.Elem().Underlying().(*types.Array); ok && a.Kind == 0 && len(a.Sels) == 0 {
				name, srt := g.elemArrName(at.Elem())
				nh2 := nh.clone()
				nh2[name] = g.define(name, srt, fmt.Sprintf("(store %s %s %s)", g.heapArr(nh, name, srt), a.Base, g.fresh("mod$arr", g.sortOf(p.Elem()))))
				return nh2
			}
			return g.store(nh, a, g.fresh("mod$deref", g.sortOf(p.Elem())))
		}
	case "call":
		if m.Args[0].Op == "id" {
			switch m.Args[0].Tok {
			case "elems":
				v := e.tr(m.Args[1])
				sl, ok := v.T.Underlying().(*types.Slice)
				if !ok {
					e.fail("elems() of non-slice")
				}
				name, srt := g.elemArrName(sl.Elem())
				nh2 := nh.clone()
				nh2[name] = g.define(name, srt, fmt.Sprintf("(store %s (s_arr %s) %s)", g.heapArr(nh, name, srt), v.V.T, g.fresh("mod$elems", "(Array "+g.IS()+" "+g.sortOf(sl.Elem())+")")))
				return nh2
			case "mapof":
				v := e.tr(m.Args[1])
				mt, ok := v.T.Underlying().(*types.Map)
				if !ok {
					e.fail("mapof() of non-map")
				}
				d, va, c := g.mapArrNames(mt)
				nh2 := nh.clone()
				for _, n := range []string{d, va, c} {
					srt := g.heapSort[n]
					inner := strings.TrimSuffix(strings.TrimPrefix(srt, "(Array Int "), ")")
					nh2[n] = g.define(n, srt, fmt.Sprintf("(store %s %s %s)", g.heapArr(nh, n, srt), v.V.T, g.fresh("mod$map", inner)))
				}
				return nh2
			}
			if gh, ok := g.P.Contracts.Ghosts[m.Args[0].Tok]; ok {
				name, srt, pts, rt := e.ghostName(gh)
				cur := g.heapArr(nh, name, srt)
				if len(m.Args)-1 > len(pts) || len(m.Args) == 1 {
					// whole ghost heap
					nh2 := nh.clone()
					nh2[name] = g.fresh(name, srt)
					return nh2
				}
				if len(m.Args)-1 < len(pts) {
					// key prefix: everything below the given keys (e.g. smHas(n.processes): every key of that map)
					var keys []string
					for i, a := range m.Args[1:] {
						v := e.coerceTo(e.tr(a), pts[i])
						t := v.V.T
						if t == "" && v.V.A != nil {
							t = g.ptrTerm(v.V.A)
						}
						keys = append(keys, t)
					}
					inner := g.sortOf(rt)
					for i := len(pts) - 1; i >= len(keys); i-- {
						inner = "(Array " + g.sortOf(pts[i]) + " " + inner + ")"
					}
					nh2 := nh.clone()
					nh2[name] = g.define(name, srt, nestedStore(cur, keys, g.fresh("mod$ghostsub", inner)))
					return nh2
				}
				var keys []string
				for i, a := range m.Args[1:] {
					v := e.coerceTo(e.tr(a), pts[i])
					t := v.V.T
					if t == "" && v.V.A != nil {
						t = g.ptrTerm(v.V.A)
					}
					keys = append(keys, t)
				}
				nh2 := nh.clone()
				nh2[name] = g.define(name, srt, nestedStore(cur, keys, g.fresh("mod$ghost", g.sortOf(rt))))
				return nh2
			}
		}
	case "id":
		if gh, ok := g.P.Contracts.Ghosts[m.Tok]; ok {
			name, srt, _, _ := e.ghostName(gh)
			nh2 := nh.clone()
			nh2[name] = g.fresh(name, srt)
			return nh2
		}
		// package-level variable
		if e.pkg != nil {
			if v, ok := e.pkg.Scope().Lookup(m.Tok).(*types.Var); ok {
				gl := g.P.globalOf(v)
				a := &Addr{Base: g.P.globalRef(gl), T: v.Type()}
				return g.store(nh, a, g.fresh("mod$glob", g.sortOf(v.Type())))
			}
		}
	}
	e.fail("unsupported modifies target %s", m)
	return nil
}

func nestedStore(arr string, keys []string, val string) string {
	if len(keys) == 0 {
		return val
	}
	inner := nestedStore(fmt.Sprintf("(select %s %s)", arr, keys[0]), keys[1:], val)
	return fmt.Sprintf("(store %s %s %s)", arr, keys[0], inner)
}

// ---------- type-only evaluation for loop havoc ----------

type typeEnv struct {
	g     *Gen
	sig   *types.Signature
	recvT types.Type
}

func (te *typeEnv) paramType(name string) types.Type {
	if te.sig == nil {
		return nil
	}
	if r := te.sig.Recv(); r != nil && r.Name() == name {
		return r.Type()
	}
	for i := 0; i < te.sig.Params().Len(); i++ {
		if te.sig.Params().At(i).Name() == name {
			return te.sig.Params().At(i).Type()
		}
	}
	if name == "self" && te.recvT != nil {
		return te.recvT
	}
	return nil
}

// typeOfSX: static type of simple path expressions over parameters (x, x.f, x.f.g)
func (te *typeEnv) typeOfSX(x *SX) types.Type {
	switch x.Op {
	case "call":
		// spec function application: its declared result type
		if len(x.Args) > 0 && x.Args[0].Op == "id" {
			if sf, ok := te.g.P.Contracts.SpecFuncs[x.Args[0].Tok]; ok && !sf.Uninterp {
				fr := newFrame(te.g, nil, nil, "", 0)
				env := &SEnv{fr: fr, g: te.g, vars: map[string]*SVal{}, heap: Heap{}, old: Heap{}, pkg: te.g.curPkg}
				if sf.PkgPath != "" {
					if p := te.g.P.pkgByPath(sf.PkgPath); p != nil {
						env.pkg = p
					}
				}
				var t types.Type
				func() {
					defer func() { recover() }()
					t = env.resolveType(sf.Ret)
				}()
				return t
			}
		}
		return nil
	case "id":
		return te.paramType(x.Tok)
	case "sel":
		bt := te.typeOfSX(x.Args[0])
		if bt == nil {
			return nil
		}
		if p, ok := bt.Underlying().(*types.Pointer); ok {
			bt = p.Elem()
		}
		st, ok := bt.Underlying().(*types.Struct)
		if !ok {
			return nil
		}
		for i := 0; i < st.NumFields(); i++ {
			if st.Field(i).Name() == x.Tok {
				return st.Field(i).Type()
			}
		}
	}
	return nil
}

func (te *typeEnv) modNames(m *SX) ([]string, bool) {
	// type-level resolution of a modifies target to heap array names (whole arrays: used for loop havoc)
	g := te.g
	if m.Op == "sel" && len(m.Args) == 1 && m.Args[0].Op == "call" && len(m.Args[0].Args) == 2 && m.Args[0].Args[0].Op == "id" && m.Args[0].Args[0].Tok == "anyof" {
		fr := newFrame(g, nil, nil, "", 0)
		env := &SEnv{fr: fr, g: g, vars: map[string]*SVal{}, heap: Heap{}, old: Heap{}, pkg: g.curPkg}
		if t, fi, ok := env.anyofField(m); ok {
			n, s := g.fieldArrName(t, fi)
			g.heapSort[n] = s
			return []string{n}, false
		}
	}
	switch m.Op {
	case "call":
		if m.Args[0].Op == "id" {
			if gh, ok := g.P.Contracts.Ghosts[m.Args[0].Tok]; ok {
				return []string{"G$" + gh.Name}, false
			}
			if m.Args[0].Tok == "mapof" && len(m.Args) == 2 {
				if t := te.typeOfSX(m.Args[1]); t != nil {
					if mt, ok := t.Underlying().(*types.Map); ok {
						d, v, c := g.mapArrNames(mt)
						return []string{d, v, c}, false
					}
				}
			}
			if m.Args[0].Tok == "elems" && len(m.Args) == 2 {
				if t := te.typeOfSX(m.Args[1]); t != nil {
					if sl, ok := t.Underlying().(*types.Slice); ok {
						n, s := g.elemArrName(sl.Elem())
						g.heapSort[n] = s
						return []string{n}, false
					}
				}
			}
		}
	case "id":
		if gh, ok := g.P.Contracts.Ghosts[m.Tok]; ok {
			return []string{"G$" + gh.Name}, false
		}
	case "sel":
		bt := te.typeOfSX(m.Args[0])
		if bt != nil {
			if p, ok := bt.Underlying().(*types.Pointer); ok {
				if st, ok := p.Elem().Underlying().(*types.Struct); ok && g.isSplitStruct(p.Elem()) {
					for i := 0; i < st.NumFields(); i++ {
						if st.Field(i).Name() == m.Tok {
							n, s := g.fieldArrName(p.Elem(), i)
							g.heapSort[n] = s
							return []string{n}, false
						}
					}
				}
			}
		}
	}
	return nil, true
}

// ---------- frame-level helpers ----------

func (fr *Frame) nthMapRange(k int) *ssa.Range {
	var rs []*ssa.Range
	for _, b := range fr.fn.Blocks {
		for _, in := range b.Instrs {
			if r, ok := in.(*ssa.Range); ok {
				if _, isMap := r.X.Type().Underlying().(*types.Map); isMap {
					rs = append(rs, r)
				}
			}
		}
	}
	// source order
	for i := 0; i < len(rs); i++ {
		for j := i + 1; j < len(rs); j++ {
			if rs[j].Pos() < rs[i].Pos() {
				rs[i], rs[j] = rs[j], rs[i]
			}
		}
	}
	if k < 1 || k > len(rs) {
		return nil
	}
	return rs[k-1]
}

// specBool evaluates a loop-invariant style clause at the entry of block b (locals visible).
func (fr *Frame) specBool(x *SX, h Heap, b *ssa.BasicBlock, c Clause) string {
	return fr.specBoolAt(x, h, b, c, false)
}

func (fr *Frame) specBoolAt(x *SX, h Heap, b *ssa.BasicBlock, c Clause, _ bool) string {
	env := fr.newSpecEnv(h, fr.entry)
	fr.bindParams(env)
	env.where = fmt.Sprintf("%s:%d", c.File, c.Line)
	env.locals = func(name string) *SVal { return fr.localAt(name, b, h) }
	env.pre = func(name string) *SVal {
		if m := fr.preVals[b.Index]; m != nil {
			return m[name]
		}
		return nil
	}
	if fr.preHeaps != nil {
		env.preHeap = fr.preHeaps[b.Index]
	}
	return env.boolTerm(x)
}

// localBefore resolves a local variable name just before instruction `at` (same block first).
func (fr *Frame) localBefore(name string, at ssa.Instruction, h Heap) *SVal {
	b := at.Block()
	pos := -1
	for i, in := range b.Instrs {
		if in == at {
			pos = i
		}
	}
	for i := pos - 1; i >= 0; i-- {
		if v := fr.localFromInstr(name, b.Instrs[i], h); v != nil {
			return v
		}
	}
	return fr.localAt(name, b, h)
}

func (fr *Frame) localFromInstr(name string, instr ssa.Instruction, h Heap) *SVal {
	g := fr.g
	switch in := instr.(type) {
	case *ssa.DebugRef:
		if in.Object() != nil && in.Object().Name() == name {
			v, ok := fr.vals[in.X]
			if !ok {
				if c, isC := in.X.(*ssa.Const); isC {
					v = fr.constVal(c)
				} else {
					return nil
				}
			}
			if in.IsAddr {
				el := in.X.Type().Underlying().(*types.Pointer).Elem()
				a := v.A
				if a == nil {
					a = &Addr{Base: v.T, T: el}
				}
				return &SVal{V: fr.wrap(g.load(h, a), el), T: el}
			}
			return &SVal{V: v, T: in.X.Type()}
		}
	case *ssa.Phi:
		if in.Comment == name {
			if v, ok := fr.vals[in]; ok {
				return &SVal{V: v, T: in.Type()}
			}
		}
	case *ssa.Alloc:
		if in.Comment == name {
			if v := fr.vals[in]; v != nil {
				el := in.Type().Underlying().(*types.Pointer).Elem()
				return &SVal{V: fr.wrap(g.load(h, v.A), el), T: el}
			}
		}
	}
	return nil
}

// localAt resolves a source-level local variable name at the entry of block b.
func (fr *Frame) localAt(name string, b *ssa.BasicBlock, h Heap) *SVal {
	g := fr.g
	// phi in this block named after the variable
	for _, in := range b.Instrs {
		if ph, ok := in.(*ssa.Phi); ok {
			if ph.Comment == name {
				if v, ok := fr.vals[ph]; ok {
					return &SVal{V: v, T: ph.Type()}
				}
			}
		} else {
			break
		}
	}
	// walk up the dominator tree looking for the closest definition / reference
	for d := b.Idom(); d != nil; d = d.Idom() {
		for i := len(d.Instrs) - 1; i >= 0; i-- {
			switch in := d.Instrs[i].(type) {
			case *ssa.DebugRef:
				if id, ok := in.Expr.(interface{ String() string }); ok {
					_ = id
				}
				if in.Object() != nil && in.Object().Name() == name {
					v, ok := fr.vals[in.X]
					if !ok {
						if c, isC := in.X.(*ssa.Const); isC {
							v = fr.constVal(c)
						} else {
							continue
						}
					}
					if in.IsAddr {
						el := in.X.Type().Underlying().(*types.Pointer).Elem()
						a := v.A
						if a == nil {
							a = &Addr{Base: v.T, T: el}
						}
						return &SVal{V: fr.wrap(g.load(h, a), el), T: el}
					}
					return &SVal{V: v, T: in.X.Type()}
				}
			case *ssa.Phi:
				if in.Comment == name {
					if v, ok := fr.vals[in]; ok {
						return &SVal{V: v, T: in.Type()}
					}
				}
			case *ssa.Alloc:
				if in.Comment == name {
					v := fr.vals[in]
					if v != nil {
						el := in.Type().Underlying().(*types.Pointer).Elem()
						return &SVal{V: fr.wrap(g.load(h, v.A), el), T: el}
					}
				}
			}
		}
	}
	return nil
}

// checkEnsures emits the postcondition obligations at a return.
func (fr *Frame) checkEnsures(ret *ssa.Return, rs []*Val, h Heap) {
	if fr.fc == nil {
		return
	}
	env := fr.newSpecEnv(h, fr.entry)
	fr.bindParams(env)
	res := fr.fn.Signature.Results()
	switch res.Len() {
	case 0:
	case 1:
		env.bindResult(rs[0], res.At(0).Type())
	default:
		env.bindResult(&Val{Tup: rs}, res)
	}
	for i, en := range fr.fc.Ensures {
		env.where = fmt.Sprintf("%s:%d", en.File, en.Line)
		f := env.boolTerm(en.Expr)
		label := en.Label
		if label == "" {
			label = fmt.Sprintf("ensures%d", i+1)
		}
		fr.oblig("ensures", "", label, f, en.Src, ret.Pos())
	}
	fr.checkFrame(ret, h)
	_ = token.NoPos
}

func mentionsResult(x *SX) bool {
	if x == nil {
		return false
	}
	if x.Op == "id" && x.Tok == "result" {
		return true
	}
	for _, a := range x.Args {
		if mentionsResult(a) {
			return true
		}
	}
	return false
}

// inferPatterns chooses E-matching triggers for a quantified body: application terms (array reads,
// field accessors applied to reads, uninterpreted functions) that mention bound variables and contain
// no arithmetic or logical structure. Quantifiers whose only candidate terms involve index arithmetic
// get no pattern; the instantiation pre-pass serves those.
func inferPatterns(body string, vars []string) string {
	if len(vars) == 0 {
		return ""
	}
	exprs := parseSexps(body)
	if len(exprs) != 1 {
		return ""
	}
	isVar := map[string]bool{}
	for _, v := range vars {
		isVar[v] = true
	}
	bad := map[string]bool{"+": true, "-": true, "*": true, "div": true, "mod": true, "ite": true, "and": true, "or": true, "not": true, "=>": true,
		"=": true, "<": true, "<=": true, ">": true, ">=": true, "forall": true, "exists": true, "let": true, "!": true, "distinct": true}
	type cand struct {
		term *sx
		vars map[string]bool
		size int
	}
	var cands []cand
	var walk func(t *sx) (map[string]bool, bool, int) // vars, clean, size
	walk = func(t *sx) (map[string]bool, bool, int) {
		if t.list == nil {
			if isVar[t.atom] {
				return map[string]bool{t.atom: true}, true, 1
			}
			return map[string]bool{}, true, 1
		}
		h := t.head()
		vs := map[string]bool{}
		clean := true
		size := 1
		if h == "forall" || h == "exists" {
			// nested quantifier: its bound variables are not ours; do not pick patterns inside
			for _, c := range t.list[2:] {
				walk(c)
			}
			return vs, false, 1
		}
		for _, c := range t.list {
			cv, cc, cs := walk(c)
			for k := range cv {
				vs[k] = true
			}
			clean = clean && cc
			size += cs
		}
		if bad[h] || strings.HasPrefix(h, "bv") || h == "" || strings.HasPrefix(h, "(_") {
			return vs, false, size
		}
		if t.list[0].list != nil {
			return vs, false, size
		}
		if clean && len(vs) > 0 && h != "mk_slice" && !strings.HasPrefix(h, "mk$") && h != "mk_iface" {
			// a bare accessor on a bound variable is too general a trigger
			if !(len(t.list) == 2 && t.list[1].isAtom() && isVar[t.list[1].atom] && (strings.HasPrefix(h, "f$") || h == "s_len" || h == "s_off" || h == "s_arr" || h == "s_cap" || h == "i_tag" || h == "i_val" || h == "slen")) {
				cands = append(cands, cand{t, vs, size})
			}
		}
		return vs, clean, size
	}
	walk(exprs[0])
	if len(cands) == 0 {
		return ""
	}
	// prefer single terms covering all variables (smallest first), else a greedy multi-pattern
	var full []cand
	for _, c := range cands {
		if len(c.vars) == len(vars) {
			full = append(full, c)
		}
	}
	seen := map[string]bool{}
	var out []string
	if len(full) > 0 {
		// keep maximal-information but small: up to 3 distinct smallest terms
		for i := 0; i < len(full); i++ {
			for j := i + 1; j < len(full); j++ {
				if full[j].size < full[i].size {
					full[i], full[j] = full[j], full[i]
				}
			}
		}
		for _, c := range full {
			k := c.term.String()
			if seen[k] {
				continue
			}
			// skip terms that strictly contain an already chosen pattern (less general)
			sub := false
			for o := range seen {
				if strings.Contains(k, o) {
					sub = true
				}
			}
			if sub {
				continue
			}
			seen[k] = true
			out = append(out, ":pattern ("+k+")")
			if len(out) >= 3 {
				break
			}
		}
		return strings.Join(out, " ")
	}
	covered := map[string]bool{}
	var multi []string
	for len(covered) < len(vars) {
		best := -1
		gain := 0
		for i, c := range cands {
			g := 0
			for v := range c.vars {
				if !covered[v] {
					g++
				}
			}
			if g > gain || (g == gain && g > 0 && best >= 0 && c.size < cands[best].size) {
				best, gain = i, g
			}
		}
		if best < 0 {
			return ""
		}
		multi = append(multi, cands[best].term.String())
		for v := range cands[best].vars {
			covered[v] = true
		}
	}
	return ":pattern (" + strings.Join(multi, " ") + ")"
}
