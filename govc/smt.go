package main

// SMT context: sorts for Go types, declarations, fresh names, heap representation.

import (
	"fmt"
	"go/types"
	"math/big"
	"sort"
	"strings"
)

type Item struct {
	Oblig bool   // false: assumption
	Guard string // reachability guard
	F     string // formula
	Name  string // obligation name (stable) or assumption origin
	Group string // "safety", "frame", "" (labelled)
	Kind  string // bounds nil div assert ensures invariant ...
	Pos   string // file:line for reports
	Src   string // clause source text
}

type Gen struct {
	P           *Program
	decls       []string
	declSet     map[string]bool
	defs        []string
	items       []Item
	nfresh      int
	rangeCalls  int
	nInterior   int
	heapSort    map[string]string // heap array name -> SMT sort of the whole array
	strLits     map[string]string
	tags        map[string]int // type tag ids
	warnings    []string
	havocs      map[string]int // callee -> count of havoc-all abstractions
	assumed     map[string]bool
	boxed       map[string]bool
	curPkg      *types.Package
	vcBytes     int
	heapRefKind map[string]string
	epochAlloc  map[string]string
	edgeCovers  bool // development aid: one reachability query per CFG edge
	intMode     bool // integers are mathematical (Int) with overflow obligations; otherwise bit-vectors
	lemmaTerms  []string
	lemmaNames  []string
}

func newGen(p *Program, intMode bool) *Gen {
	g := &Gen{P: p, intMode: intMode, declSet: map[string]bool{}, heapSort: map[string]string{}, strLits: map[string]string{}, tags: map[string]int{},
		havocs: map[string]int{}, assumed: map[string]bool{}, boxed: map[string]bool{}, heapRefKind: map[string]string{}, epochAlloc: map[string]string{}}
	g.decl("sort:Str", "(declare-sort Str 0)")
	is := g.IS()
	g.decl("fun:slen", "(declare-fun slen (Str) "+is+")")
	g.decl("fun:sat", "(declare-fun sat (Str "+is+") "+g.byteSort()+")")
	g.decl("dt:Slice", "(declare-datatype Slice ((mk_slice (s_arr Int) (s_off "+is+") (s_len "+is+") (s_cap "+is+"))))")
	g.decl("dt:Iface", "(declare-datatype Iface ((mk_iface (i_tag Int) (i_val Int))))")
	g.decl("const:str_empty", "(declare-const str_empty Str)")
	g.defs = append(g.defs, "(= (slen str_empty) "+g.ilit(0)+")")
	// NB: no global "slen >= 0" axiom: definitions must stay conservative (a string built from an
	// ill-formed slice on a path that panics must not make the whole context inconsistent);
	// non-negativity is a type fact assumed for parameters, loads and call results.
	return g
}

func (g *Gen) decl(key, text string) {
	if g.declSet[key] {
		return
	}
	g.declSet[key] = true
	g.decls = append(g.decls, text)
}

func (g *Gen) warn(f string, a ...interface{}) {
	g.warnings = append(g.warnings, fmt.Sprintf(f, a...))
}

func (g *Gen) fresh(prefix, sort string) string {
	g.nfresh++
	n := fmt.Sprintf("%s!%d", sanitize(prefix), g.nfresh)
	g.decls = append(g.decls, fmt.Sprintf("(declare-const %s %s)", n, sort))
	return n
}

func (g *Gen) define(prefix, sort, term string) string {
	if len(term) < 24 && !strings.Contains(term, " ") {
		return term
	}
	n := g.fresh(prefix, sort)
	g.defs = append(g.defs, fmt.Sprintf("(= %s %s)", n, term))
	return n
}

func (g *Gen) assume(guard, f, origin string) {
	g.items = append(g.items, Item{Oblig: false, Guard: guard, F: f, Name: origin})
}

func sanitize(s string) string {
	var sb strings.Builder
	for _, c := range s {
		switch {
		case c >= 'a' && c <= 'z', c >= 'A' && c <= 'Z', c >= '0' && c <= '9', c == '_', c == '.', c == '$':
			sb.WriteRune(c)
		case c == '/':
			sb.WriteRune('.')
		case c == '*':
			sb.WriteString("P")
		case c == '[':
			sb.WriteString("L")
		case c == ']':
			sb.WriteString("R")
		default:
			sb.WriteRune('_')
		}
	}
	return sb.String()
}

func bvLit(v *big.Int, w int) string {
	m := new(big.Int).Lsh(big.NewInt(1), uint(w))
	x := new(big.Int).Mod(v, m)
	if w%4 == 0 {
		s := x.Text(16)
		return "#x" + strings.Repeat("0", w/4-len(s)) + s
	}
	s := x.Text(2)
	return "#b" + strings.Repeat("0", w-len(s)) + s
}

func bvInt(v int64, w int) string { return bvLit(big.NewInt(v), w) }

// intInfo returns width and signedness of an integer-like basic type.
func intInfo(t types.Type) (w int, signed bool, ok bool) {
	b, isB := t.Underlying().(*types.Basic)
	if !isB {
		return 0, false, false
	}
	switch b.Kind() {
	case types.Int8:
		return 8, true, true
	case types.Int16:
		return 16, true, true
	case types.Int32:
		return 32, true, true
	case types.Int64, types.Int, types.UntypedInt, types.UntypedRune:
		return 64, true, true
	case types.Uint8:
		return 8, false, true
	case types.Uint16:
		return 16, false, true
	case types.Uint32:
		return 32, false, true
	case types.Uint64, types.Uint, types.Uintptr:
		return 64, false, true
	}
	return 0, false, false
}

func isString(t types.Type) bool {
	b, ok := t.Underlying().(*types.Basic)
	return ok && b.Info()&types.IsString != 0
}
func isBool(t types.Type) bool {
	b, ok := t.Underlying().(*types.Basic)
	return ok && b.Info()&types.IsBoolean != 0
}
func isFloat(t types.Type) bool {
	b, ok := t.Underlying().(*types.Basic)
	return ok && b.Info()&types.IsFloat != 0
}

func typeKey(t types.Type) string {
	// byte and rune are aliases of uint8 and int32: one dynamic type each
	if b, ok := t.(*types.Basic); ok {
		switch b.Kind() {
		case types.Uint8:
			return "uint8"
		case types.Int32:
			return "int32"
		}
	}
	return sanitize(types.TypeString(t, func(p *types.Package) string { return p.Path() }))
}

// isOpaqueStruct: struct types from outside the module are opaque sorts.
func (g *Gen) isOpaqueStruct(t types.Type) bool {
	if _, ok := t.Underlying().(*types.Struct); !ok {
		return false
	}
	n, ok := t.(*types.Named)
	if !ok {
		return false
	}
	if n.Obj().Pkg() == nil {
		return true
	}
	return !strings.HasPrefix(n.Obj().Pkg().Path(), g.P.ModPath)
}

func (g *Gen) sortOf(t types.Type) string {
	switch u := t.Underlying().(type) {
	case *types.Basic:
		if w, _, ok := intInfo(t); ok {
			if g.intMode {
				return "Int"
			}
			return fmt.Sprintf("(_ BitVec %d)", w)
		}
		switch {
		case u.Info()&types.IsBoolean != 0:
			return "Bool"
		case u.Info()&types.IsString != 0:
			return "Str"
		case u.Kind() == types.Float32:
			return "(_ BitVec 32)"
		case u.Kind() == types.Float64 || u.Kind() == types.UntypedFloat:
			return "(_ BitVec 64)"
		case u.Kind() == types.UnsafePointer:
			return "Int"
		case u.Kind() == types.UntypedNil:
			return "Int"
		case u.Kind() == types.Complex128 || u.Kind() == types.Complex64:
			g.decl("sort:Complex", "(declare-sort Complex 0)")
			return "Complex"
		}
	case *types.Pointer, *types.Map, *types.Chan, *types.Signature:
		return "Int"
	case *types.Slice:
		return "Slice"
	case *types.Interface:
		return "Iface"
	case *types.Array:
		return "(Array " + g.IS() + " " + g.sortOf(u.Elem()) + ")"
	case *types.Struct:
		if g.isOpaqueStruct(t) {
			n := "O$" + typeKey(t)
			g.decl("sort:"+n, fmt.Sprintf("(declare-sort %s 0)", n))
			return n
		}
		return g.structSort(t, u)
	case *types.Tuple:
		return "Tuple?"
	}
	panic(genErr(fmt.Sprintf("sortOf: unsupported type %s", t)))
}

func (g *Gen) structName(t types.Type) string {
	if n, ok := t.(*types.Named); ok {
		return typeKey(n)
	}
	if a, ok := t.(*types.Alias); ok {
		return g.structName(types.Unalias(a))
	}
	return "anon$" + fmt.Sprintf("%x", hashString(typeKey(t)))
}

func hashString(s string) uint32 {
	var h uint32 = 2166136261
	for i := 0; i < len(s); i++ {
		h ^= uint32(s[i])
		h *= 16777619
	}
	return h
}

func (g *Gen) structSort(t types.Type, st *types.Struct) string {
	name := g.structName(t)
	sortName := "T$" + name
	if g.declSet["dt:"+sortName] {
		return sortName
	}
	g.declSet["dt:"+sortName] = true // reserve (no recursion by value possible)
	var fs []string
	for i := 0; i < st.NumFields(); i++ {
		f := st.Field(i)
		fs = append(fs, fmt.Sprintf("(%s %s)", g.accessor(name, f.Name(), i), g.sortOf(f.Type())))
	}
	if st.NumFields() == 0 {
		g.decls = append(g.decls, fmt.Sprintf("(declare-datatype %s ((mk$%s)))", sortName, name))
	} else {
		g.decls = append(g.decls, fmt.Sprintf("(declare-datatype %s ((mk$%s %s)))", sortName, name, strings.Join(fs, " ")))
	}
	return sortName
}

func (g *Gen) accessor(structName, field string, i int) string {
	if field == "_" {
		field = fmt.Sprintf("_%d", i)
	}
	return "f$" + structName + "$" + field
}

func (g *Gen) zero(t types.Type) string {
	switch u := t.Underlying().(type) {
	case *types.Basic:
		if w, _, ok := intInfo(t); ok {
			if g.intMode {
				return "0"
			}
			return bvInt(0, w)
		}
		switch {
		case u.Info()&types.IsBoolean != 0:
			return "false"
		case u.Info()&types.IsString != 0:
			return "str_empty"
		case u.Kind() == types.Float32:
			return bvInt(0, 32)
		case u.Kind() == types.Float64:
			return bvInt(0, 64)
		case u.Kind() == types.UnsafePointer, u.Kind() == types.UntypedNil:
			return "0"
		}
	case *types.Pointer, *types.Map, *types.Chan, *types.Signature:
		return "0"
	case *types.Slice:
		return "(mk_slice 0 " + g.ilit(0) + " " + g.ilit(0) + " " + g.ilit(0) + ")"
	case *types.Interface:
		return "(mk_iface 0 0)"
	case *types.Array:
		return g.constArray(g.sortOf(t), g.zero(u.Elem()))
	case *types.Struct:
		if g.isOpaqueStruct(t) {
			s := g.sortOf(t)
			n := "zero$" + s
			g.decl("const:"+n, fmt.Sprintf("(declare-const %s %s)", n, s))
			return n
		}
		s := g.structSort(t, u)
		_ = s
		name := g.structName(t)
		if u.NumFields() == 0 {
			return "mk$" + name
		}
		var fs []string
		for i := 0; i < u.NumFields(); i++ {
			fs = append(fs, g.zero(u.Field(i).Type()))
		}
		return fmt.Sprintf("(mk$%s %s)", name, strings.Join(fs, " "))
	}
	s := g.sortOf(t)
	n := "zero$" + sanitize(s)
	g.decl("const:"+n, fmt.Sprintf("(declare-const %s %s)", n, s))
	return n
}

// typeTag gives a distinct positive Int per dynamic type.
func (g *Gen) typeTag(t types.Type) string {
	k := typeKey(t)
	id, ok := g.tags[k]
	if !ok {
		id = len(g.tags) + 1
		g.tags[k] = id
	}
	return fmt.Sprintf("%d", id)
}

// box/unbox: injection of a sort into the Int payload of an interface value.
func (g *Gen) box(t types.Type, v string) string {
	s := g.sortOf(t)
	if s == "Int" {
		return v
	}
	k := sanitize(s)
	g.decl("fun:box$"+k, fmt.Sprintf("(declare-fun box$%s (%s) Int)", k, s))
	g.decl("fun:unbox$"+k, fmt.Sprintf("(declare-fun unbox$%s (Int) %s)", k, s))
	key := "box:" + k + ":" + v
	if strings.Contains(v, "q$") {
		// the boxed term mentions a quantifier-bound variable: a ground fact would leak it; state the
		// round-trip law for the whole sort instead (once)
		key = "boxax:" + k
		if !g.boxed[key] {
			g.boxed[key] = true
			g.defs = append(g.defs, fmt.Sprintf("(forall ((bx %s)) (! (= (unbox$%s (box$%s bx)) bx) :pattern ((box$%s bx))))", s, k, k, k))
		}
	} else if !g.boxed[key] {
		g.boxed[key] = true
		g.defs = append(g.defs, fmt.Sprintf("(= (unbox$%s (box$%s %s)) %s)", k, k, v, v))
	}
	return fmt.Sprintf("(box$%s %s)", k, v)
}

func (g *Gen) unbox(t types.Type, payload string) string {
	s := g.sortOf(t)
	if s == "Int" {
		return payload
	}
	k := sanitize(s)
	g.decl("fun:box$"+k, fmt.Sprintf("(declare-fun box$%s (%s) Int)", k, s))
	g.decl("fun:unbox$"+k, fmt.Sprintf("(declare-fun unbox$%s (Int) %s)", k, s))
	return fmt.Sprintf("(unbox$%s %s)", k, payload)
}

func (g *Gen) strLit(s string) string {
	if s == "" {
		return "str_empty"
	}
	if n, ok := g.strLits[s]; ok {
		return n
	}
	n := fmt.Sprintf("strlit$%d", len(g.strLits))
	g.strLits[s] = n
	g.decls = append(g.decls, fmt.Sprintf("(declare-const %s Str)", n))
	g.defs = append(g.defs, fmt.Sprintf("(= (slen %s) %s)", n, g.ilit(int64(len(s)))))
	if len(s) <= 64 {
		for i := 0; i < len(s); i++ {
			g.defs = append(g.defs, fmt.Sprintf("(= (sat %s %s) %s)", n, g.ilit(int64(i)), g.lit(big.NewInt(int64(s[i])), 8)))
		}
	}
	return n
}

// strLitDistinct is emitted once at the end: all literals are pairwise distinct strings.
func (g *Gen) strLitDistinct() string {
	if len(g.strLits) == 0 {
		return ""
	}
	var ns []string
	for _, n := range g.strLits {
		ns = append(ns, n)
	}
	sort.Strings(ns)
	ns = append(ns, "str_empty")
	return "(distinct " + strings.Join(ns, " ") + ")"
}

type genErr string

func (e genErr) Error() string { return string(e) }

func and(xs ...string) string {
	var ys []string
	for _, x := range xs {
		if x == "true" || x == "" {
			continue
		}
		if x == "false" {
			return "false"
		}
		ys = append(ys, x)
	}
	switch len(ys) {
	case 0:
		return "true"
	case 1:
		return ys[0]
	}
	return "(and " + strings.Join(ys, " ") + ")"
}

func or(xs ...string) string {
	var ys []string
	for _, x := range xs {
		if x == "false" || x == "" {
			continue
		}
		if x == "true" {
			return "true"
		}
		ys = append(ys, x)
	}
	switch len(ys) {
	case 0:
		return "false"
	case 1:
		return ys[0]
	}
	return "(or " + strings.Join(ys, " ") + ")"
}

func not(x string) string {
	switch x {
	case "true":
		return "false"
	case "false":
		return "true"
	}
	return "(not " + x + ")"
}

func implies(a, b string) string {
	if a == "true" {
		return b
	}
	if b == "true" {
		return "true"
	}
	return "(=> " + a + " " + b + ")"
}

func ite(c, a, b string) string {
	if c == "true" {
		return a
	}
	if c == "false" {
		return b
	}
	if a == b {
		return a
	}
	return "(ite " + c + " " + a + " " + b + ")"
}

// ---------- mode-dependent integer helpers ----------

// IS is the sort of indices, lengths and capacities (Go int).
func (g *Gen) IS() string {
	if g.intMode {
		return "Int"
	}
	return "(_ BitVec 64)"
}

func (g *Gen) byteSort() string {
	if g.intMode {
		return "Int"
	}
	return "(_ BitVec 8)"
}

// lit: integer literal of width w.
func (g *Gen) lit(v *big.Int, w int) string {
	if g.intMode {
		if v.Sign() < 0 {
			return "(- " + new(big.Int).Neg(v).String() + ")"
		}
		return v.String()
	}
	return bvLit(v, w)
}

func (g *Gen) ilit(n int64) string { return g.lit(big.NewInt(n), 64) }

func (g *Gen) iadd(a, b string) string {
	if g.intMode {
		return "(+ " + a + " " + b + ")"
	}
	return "(bvadd " + a + " " + b + ")"
}

func (g *Gen) isub(a, b string) string {
	if g.intMode {
		return "(- " + a + " " + b + ")"
	}
	return "(bvsub " + a + " " + b + ")"
}

func (g *Gen) ile(a, b string) string {
	if g.intMode {
		return "(<= " + a + " " + b + ")"
	}
	return "(bvsle " + a + " " + b + ")"
}

func (g *Gen) ilt(a, b string) string {
	if g.intMode {
		return "(< " + a + " " + b + ")"
	}
	return "(bvslt " + a + " " + b + ")"
}

// inRange: 0 <= i < n (n non-negative)
func (g *Gen) inRange(i, n string) string {
	if g.intMode {
		return "(and (<= 0 " + i + ") (< " + i + " " + n + "))"
	}
	return "(bvult " + i + " " + n + ")"
}

// maxLen is the largest length/capacity/offset a slice may have.
func (g *Gen) maxLen() string {
	if g.intMode {
		return "281474976710655"
	}
	return "#x0000ffffffffffff"
}

func intRange(w int, signed bool) (*big.Int, *big.Int) {
	one := big.NewInt(1)
	if signed {
		hi := new(big.Int).Sub(new(big.Int).Lsh(one, uint(w-1)), one)
		lo := new(big.Int).Neg(new(big.Int).Lsh(one, uint(w-1)))
		return lo, hi
	}
	return big.NewInt(0), new(big.Int).Sub(new(big.Int).Lsh(one, uint(w)), one)
}

// rangeFact: x is representable in the integer type (only meaningful in int mode).
func (g *Gen) rangeFact(x string, t types.Type) string {
	if !g.intMode {
		return "true"
	}
	w, signed, ok := intInfo(t)
	if !ok {
		return "true"
	}
	lo, hi := intRange(w, signed)
	return fmt.Sprintf("(and (<= %s %s) (<= %s %s))", g.lit(lo, w), x, x, g.lit(hi, w))
}

// constArray: an array that maps every index to v. cvc5 only accepts values in (as const ...),
// so non-value elements (uninterpreted zero constants) get a declared array with an axiom.
func (g *Gen) constArray(arrSort, v string) string {
	if !strings.Contains(v, "str_empty") && !strings.Contains(v, "zero$") && !strings.Contains(v, "mk$") {
		return fmt.Sprintf("((as const %s) %s)", arrSort, v)
	}
	name := "constarr$" + fmt.Sprintf("%x", hashString(arrSort+"|"+v))
	if !g.declSet["const:"+name] {
		g.decl("const:"+name, fmt.Sprintf("(declare-const %s %s)", name, arrSort))
		ks := firstSort(arrSort[len("(Array "):])
		g.defs = append(g.defs, fmt.Sprintf("(forall ((i %s)) (! (= (select %s i) %s) :pattern ((select %s i))))", ks, name, v, name))
	}
	return name
}
