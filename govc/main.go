package main

import (
	"flag"
	"fmt"
	"os"
	"sort"
	"strings"
	"time"
)

const modPath = "ergo.services/ergo"

func envOr(k, d string) string {
	if v := os.Getenv(k); v != "" {
		return v
	}
	return d
}

func main() {
	if len(os.Args) < 2 {
		fmt.Fprintln(os.Stderr, "usage: govc check|unit|list ...")
		os.Exit(2)
	}
	switch os.Args[1] {
	case "check":
		os.Exit(cmdCheck(os.Args[2:]))
	case "unit":
		os.Exit(cmdUnit(os.Args[2:]))
	case "list":
		os.Exit(cmdList(os.Args[2:]))
	}
	fmt.Fprintln(os.Stderr, "unknown command", os.Args[1])
	os.Exit(2)
}

func pkgsOfContracts(cs *Contracts, props map[string]bool) []string {
	set := map[string]bool{}
	for _, fc := range cs.Funcs {
		if fc.PkgPath == "" || fc.Trusted {
			continue
		}
		if props != nil {
			hit := false
			for _, p := range fc.Props {
				if props[p] {
					hit = true
				}
			}
			if !hit {
				continue
			}
		}
		set[fc.PkgPath] = true
	}
	for _, sw := range cs.Sweeps {
		if props != nil {
			hit := false
			for _, p := range sw.Props {
				if props[p] {
					hit = true
				}
			}
			if !hit {
				continue
			}
		}
		set[sw.PkgPath] = true
	}
	for _, lm := range cs.Lemmas {
		if lm.PkgPath == "" {
			continue
		}
		if props != nil {
			hit := false
			for _, p := range lm.Props {
				if props[p] {
					hit = true
				}
			}
			if !hit {
				continue
			}
		}
		set[lm.PkgPath] = true
	}
	var out []string
	for k := range set {
		out = append(out, k)
	}
	sort.Strings(out)
	return out
}

func cmdList(args []string) int {
	fs := flag.NewFlagSet("list", flag.ExitOnError)
	root := fs.String("root", envOr("VERIF_REPO", "/repo"), "repository root")
	verif := fs.String("verif", envOr("VERIF_DIR", "/verif"), "verif dir")
	fs.Parse(args)
	cs, err := loadAllContracts(*root, modPath, *verif+"/specs")
	if err != nil {
		fmt.Fprintln(os.Stderr, err)
		return 2
	}
	var keys []string
	for k := range cs.Funcs {
		keys = append(keys, k)
	}
	sort.Strings(keys)
	for _, k := range keys {
		fc := cs.Funcs[k]
		fmt.Printf("%-70s props=%v trusted=%v req=%d ens=%d\n", k, fc.Props, fc.Trusted, len(fc.Requires), len(fc.Ensures))
	}
	for _, lm := range cs.Lemmas {
		fmt.Printf("lemma %-64s props=%v\n", lm.Name, lm.Props)
	}
	return 0
}

// cmdUnit: verify (or dump) a single function, for development.
func cmdUnit(args []string) int {
	fs := flag.NewFlagSet("unit", flag.ExitOnError)
	root := fs.String("root", envOr("VERIF_REPO", "/repo"), "repository root")
	verif := fs.String("verif", envOr("VERIF_DIR", "/verif"), "verif dir")
	fname := fs.String("func", "", "function name as in the contract file (substring match)")
	dump := fs.String("dump", "", "write SMT scripts to this directory")
	timeout := fs.Int("timeout", 10, "per-obligation timeout (s)")
	verbose := fs.Bool("v", false, "verbose")
	edges := fs.Bool("edges", false, "report CFG edges that are infeasible under the contract (vacuity audit)")
	only := fs.String("only", "", "solve only the obligations whose name contains this text (development)")
	fs.Parse(args)
	cs, err := loadAllContracts(*root, modPath, *verif+"/specs")
	if err != nil {
		fmt.Fprintln(os.Stderr, err)
		return 2
	}
	var sel []*FuncContract
	var lemmas []*Lemma
	if len(cs.Sweeps) > 0 {
		// sweeps can only be expanded against a loaded program: load the sweep packages first
		pk0 := map[string]bool{}
		for _, sw := range cs.Sweeps {
			pk0[sw.PkgPath] = true
		}
		var l0 []string
		for k := range pk0 {
			l0 = append(l0, k)
		}
		if p0, err := loadProgram(*root, modPath, l0, "verif"); err == nil {
			p0.Contracts = cs
			p0.expandSweeps()
		}
	}
	for k, fc := range cs.Funcs {
		if !fc.Trusted && strings.Contains(k, *fname) {
			sel = append(sel, fc)
		}
	}
	for _, lm := range cs.Lemmas {
		if strings.Contains("lemma."+lm.Name, *fname) {
			lemmas = append(lemmas, lm)
		}
	}
	sort.Slice(sel, func(i, j int) bool { return sel[i].Name < sel[j].Name })
	pk := map[string]bool{}
	for _, fc := range sel {
		pk[fc.PkgPath] = true
	}
	for _, lm := range lemmas {
		if lm.PkgPath != "" {
			pk[lm.PkgPath] = true
		}
	}
	var pkgs []string
	for k := range pk {
		pkgs = append(pkgs, k)
	}
	if len(pkgs) == 0 {
		fmt.Fprintln(os.Stderr, "no unit matches")
		return 2
	}
	t0 := time.Now()
	p, err := loadProgram(*root, modPath, pkgs, "verif")
	if err != nil {
		fmt.Fprintln(os.Stderr, err)
		return 2
	}
	p.Contracts = cs
	p.EdgeCovers = *edges
	p.expandSweeps()
	p.markViaContract()
	fmt.Printf("loaded %v in %.1fs\n", pkgs, time.Since(t0).Seconds())
	rc := 0
	report := func(ur *UnitResult) {
		if ur.Err != "" {
			fmt.Printf("UNIT %s: GENERATION ERROR: %s\n", ur.Name, ur.Err)
			rc = 1
			return
		}
		fmt.Printf("UNIT %s: %d queries, vc max %d bytes, solve %.2fs\n", ur.Name, ur.Queries, ur.VCBytes, ur.SolveSecs)
		for _, o := range ur.Obligs {
			if o.Group == "edgecover" {
				if o.Status == "vacuous" {
					fmt.Printf("  INFEASIBLE EDGE %s at %s\n", o.Name, o.Pos)
				}
				continue
			}
			mark := "ok  "
			if o.Status != "discharged" {
				mark = "FAIL"
				rc = 1
			}
			fmt.Printf("  %s %-60s %-10s sites=%d %s %.2fs %s\n", mark, o.Name, o.Status, o.Sites, o.Solver, o.Secs, o.Pos)
			if o.Failing != nil {
				fmt.Printf("       %s | %s | attempts %v\n", o.Failing.Q.Kind, o.Failing.Q.Src, o.Failing.Attempt)
				if len(o.Failing.Values) > 0 {
					var ks []string
					for k := range o.Failing.Values {
						ks = append(ks, k)
					}
					sort.Strings(ks)
					for _, k := range ks {
						fmt.Printf("         %s = %s\n", k, o.Failing.Values[k])
					}
				}
				if *verbose {
					fmt.Println(o.Failing.Output)
				}
				if len(o.AllFailing) > 1 {
					for _, f := range o.AllFailing[1:] {
						fmt.Printf("       also: %s %s | %s | %s\n", f.Status, f.Q.Pos, f.Q.Kind, f.Q.Src)
					}
				}
			}
		}
		for _, w := range ur.Warnings {
			fmt.Println("  warning:", w)
		}
		for _, hv := range sortedHavocs(ur.Havocs) {
			fmt.Println("  havoc-all call:", hv)
		}
	}
	for _, fc := range sel {
		g, fr, ur := p.genFunc(fc)
		if ur.Err == "" {
			terms, names := fr.inputTerms()
			qs := g.buildQueries(ur.Name, terms, names)
			if *only != "" {
				var keep []*Query
				for _, q := range qs {
					n := q.Name
					if q.Group == "frame" {
						n = q.Unit + ".frame"
					}
					if strings.Contains(n, *only) {
						keep = append(keep, q)
					}
				}
				qs = keep
			}
			if *dump != "" {
				os.MkdirAll(*dump, 0755)
				for i, q := range qs {
					os.WriteFile(fmt.Sprintf("%s/%s_%d.smt2", *dump, sanitize(q.Name), i), []byte(q.Script), 0644)
				}
			}
			ur.finish(g, solveAll(qs, *timeout, 12))
		}
		report(ur)
	}
	for _, lm := range lemmas {
		g, ur := p.genLemma(lm)
		if ur.Err == "" {
			qs := g.buildQueries(ur.Name, g.lemmaTerms, g.lemmaNames)
			if *dump != "" {
				os.MkdirAll(*dump, 0755)
				for i, q := range qs {
					os.WriteFile(fmt.Sprintf("%s/%s_%d.smt2", *dump, sanitize(q.Name), i), []byte(q.Script), 0644)
				}
			}
			ur.finish(g, solveAll(qs, *timeout, 12))
		}
		report(ur)
	}
	return rc
}
