package main

// Mode-dependent translation of arithmetic, conversions, slicing and map updates.

import (
	"fmt"
	"go/token"
	"go/types"
	"math/big"

	"golang.org/x/tools/go/ssa"
)

// overflowOblig: in int mode the mathematical result must be representable in the type.
func (fr *Frame) overflowOblig(term string, t types.Type, what string, pos token.Pos) {
	if !fr.g.intMode {
		return
	}
	fr.oblig("overflow", "safety", "", fr.g.rangeFact(term, t), "no overflow: "+what, pos)
}

func (fr *Frame) negate(x *ssa.UnOp, a string) string {
	g := fr.g
	if g.intMode {
		t := g.define(fr.prefix+x.Name(), "Int", "(- "+a+")")
		fr.overflowOblig(t, x.Type(), x.String(), x.Pos())
		return t
	}
	return g.define(fr.prefix+x.Name(), g.sortOf(x.Type()), fmt.Sprintf("(bvneg %s)", a))
}

func (fr *Frame) bitnot(x *ssa.UnOp, a string) string {
	g := fr.g
	if g.intMode {
		w, signed, _ := intInfo(x.Type())
		if signed {
			return g.define(fr.prefix+x.Name(), "Int", "(- (- "+a+") 1)")
		}
		_, hi := intRange(w, false)
		return g.define(fr.prefix+x.Name(), "Int", "(- "+hi.String()+" "+a+")")
	}
	return g.define(fr.prefix+x.Name(), g.sortOf(x.Type()), fmt.Sprintf("(bvnot %s)", a))
}

// truncDiv: Go's truncated division on mathematical integers.
func truncDiv(a, b string) string {
	return fmt.Sprintf("(ite (>= %s 0) (ite (> %s 0) (div %s %s) (- (div %s (- %s)))) (ite (> %s 0) (- (div (- %s) %s)) (div (- %s) (- %s))))", a, b, a, b, a, b, b, a, b, a, b)
}

func constOperand(v ssa.Value) (*big.Int, bool) {
	c, ok := v.(*ssa.Const)
	if !ok || c.Value == nil {
		return nil, false
	}
	if _, _, isInt := intInfo(c.Type()); !isInt {
		return nil, false
	}
	if u, ok := c.Value.(interface{ String() string }); ok {
		bi, ok2 := new(big.Int).SetString(c.Value.ExactString(), 10)
		_ = u
		return bi, ok2
	}
	return nil, false
}

func pow2(k uint) *big.Int { return new(big.Int).Lsh(big.NewInt(1), k) }

// isMask reports whether v = 2^k - 1.
func isMask(v *big.Int) (uint, bool) {
	if v.Sign() <= 0 {
		return 0, false
	}
	n := new(big.Int).Add(v, big.NewInt(1))
	if n.BitLen() > 0 && new(big.Int).And(n, v).Sign() == 0 {
		return uint(n.BitLen() - 1), true
	}
	return 0, false
}

func (fr *Frame) binop(x *ssa.BinOp) *Val {
	g := fr.g
	a, b := fr.val(x.X), fr.val(x.Y)
	t := x.X.Type()
	res := func(term string) *Val {
		return &Val{T: g.define(fr.prefix+x.Name(), g.sortOf(x.Type()), term)}
	}
	if x.Op == token.EQL || x.Op == token.NEQ {
		var eq string
		switch {
		case isFloat(t):
			eq = fr.uf("feq", types.Typ[types.Bool], x.X, x.Y)
		default:
			at, bt := a.T, b.T
			if at == "" && a.A != nil {
				at = g.ptrTerm(a.A)
			}
			if bt == "" && b.A != nil {
				bt = g.ptrTerm(b.A)
			}
			eq = fmt.Sprintf("(= %s %s)", at, bt)
		}
		if x.Op == token.NEQ {
			eq = not(eq)
		}
		return res(eq)
	}
	if isFloat(t) {
		return res(fr.uf("f"+opName(x.Op), x.Type(), x.X, x.Y))
	}
	if isString(t) {
		switch x.Op {
		case token.ADD:
			r := g.fresh(fr.prefix+"concat", "Str")
			g.defs = append(g.defs, fmt.Sprintf("(= (slen %s) %s)", r, g.iadd("(slen "+a.T+")", "(slen "+b.T+")")))
			g.defs = append(g.defs, fmt.Sprintf("(forall ((i %s)) (! (= (sat %s i) (ite %s (sat %s i) (sat %s %s))) :pattern ((sat %s i))))", g.IS(), r, g.inRange("i", "(slen "+a.T+")"), a.T, b.T, g.isub("i", "(slen "+a.T+")"), r))
			return &Val{T: r}
		default:
			return res(fr.uf("str"+opName(x.Op), x.Type(), x.X, x.Y))
		}
	}
	if isBool(t) {
		switch x.Op {
		case token.AND, token.LAND:
			return res(and(a.T, b.T))
		case token.OR, token.LOR:
			return res(or(a.T, b.T))
		}
	}
	w, signed, ok := intInfo(t)
	if !ok {
		panic(genErr(fmt.Sprintf("binop %s on %s", x.Op, t)))
	}
	if g.intMode {
		return fr.binopInt(x, a.T, b.T, w, signed, res)
	}
	switch x.Op {
	case token.ADD:
		return res(fmt.Sprintf("(bvadd %s %s)", a.T, b.T))
	case token.SUB:
		return res(fmt.Sprintf("(bvsub %s %s)", a.T, b.T))
	case token.MUL:
		return res(fmt.Sprintf("(bvmul %s %s)", a.T, b.T))
	case token.QUO, token.REM:
		fr.oblig("div", "safety", "", fmt.Sprintf("(not (= %s %s))", b.T, bvInt(0, w)), "division by zero: "+x.String(), x.Pos())
		op := map[bool]map[token.Token]string{true: {token.QUO: "bvsdiv", token.REM: "bvsrem"}, false: {token.QUO: "bvudiv", token.REM: "bvurem"}}[signed][x.Op]
		return res(fmt.Sprintf("(%s %s %s)", op, a.T, b.T))
	case token.AND:
		return res(fmt.Sprintf("(bvand %s %s)", a.T, b.T))
	case token.OR:
		return res(fmt.Sprintf("(bvor %s %s)", a.T, b.T))
	case token.XOR:
		return res(fmt.Sprintf("(bvxor %s %s)", a.T, b.T))
	case token.AND_NOT:
		return res(fmt.Sprintf("(bvand %s (bvnot %s))", a.T, b.T))
	case token.SHL, token.SHR:
		cw, csigned, _ := intInfo(x.Y.Type())
		cnt := b.T
		if csigned {
			fr.oblig("shift", "safety", "", fmt.Sprintf("(bvsge %s %s)", cnt, bvInt(0, cw)), "negative shift count: "+x.String(), x.Pos())
		}
		return res(shiftTerm(x.Op == token.SHL, signed, w, a.T, cnt, cw))
	case token.LSS, token.LEQ, token.GTR, token.GEQ:
		op := map[token.Token]string{token.LSS: "lt", token.LEQ: "le", token.GTR: "gt", token.GEQ: "ge"}[x.Op]
		if signed {
			op = "bvs" + op
		} else {
			op = "bvu" + op
		}
		return res(fmt.Sprintf("(%s %s %s)", op, a.T, b.T))
	}
	panic(genErr("binop " + x.Op.String()))
}

func (fr *Frame) binopInt(x *ssa.BinOp, a, b string, w int, signed bool, res func(string) *Val) *Val {
	g := fr.g
	checked := func(term string) *Val {
		v := res(term)
		fr.overflowOblig(v.T, x.Type(), x.String(), x.Pos())
		return v
	}
	switch x.Op {
	case token.ADD:
		return checked("(+ " + a + " " + b + ")")
	case token.SUB:
		return checked("(- " + a + " " + b + ")")
	case token.MUL:
		return checked("(* " + a + " " + b + ")")
	case token.QUO:
		fr.oblig("div", "safety", "", "(not (= "+b+" 0))", "division by zero: "+x.String(), x.Pos())
		if !signed {
			return res("(div " + a + " " + b + ")")
		}
		return checked(truncDiv(a, b))
	case token.REM:
		fr.oblig("div", "safety", "", "(not (= "+b+" 0))", "division by zero: "+x.String(), x.Pos())
		if !signed {
			return res("(mod " + a + " " + b + ")")
		}
		return res("(- " + a + " (* " + b + " " + truncDiv(a, b) + "))")
	case token.LSS:
		return res("(< " + a + " " + b + ")")
	case token.LEQ:
		return res("(<= " + a + " " + b + ")")
	case token.GTR:
		return res("(> " + a + " " + b + ")")
	case token.GEQ:
		return res("(>= " + a + " " + b + ")")
	case token.AND:
		if c, ok := constOperand(x.Y); ok {
			if k, isM := isMask(c); isM && !signed {
				return res("(mod " + a + " " + pow2(k).String() + ")")
			}
		}
		if c, ok := constOperand(x.X); ok {
			if k, isM := isMask(c); isM && !signed {
				return res("(mod " + b + " " + pow2(k).String() + ")")
			}
		}
	case token.SHL:
		if c, ok := constOperand(x.Y); ok && c.IsUint64() && c.Uint64() < 64 {
			return checked("(* " + a + " " + pow2(uint(c.Uint64())).String() + ")")
		}
	case token.SHR:
		if c, ok := constOperand(x.Y); ok && c.IsUint64() && c.Uint64() < 64 {
			return res("(div " + a + " " + pow2(uint(c.Uint64())).String() + ")")
		}
	}
	// bit operations without an arithmetic reading: uninterpreted in int mode (sound, incomplete)
	g.warn("%s: bit operation %s is uninterpreted in int mode", fr.unitName, x.Op)
	v := res(fr.uf("bit"+opName(x.Op), x.Type(), x.X, x.Y))
	fr.assume(g.rangeFact(v.T, x.Type()), "result of bit operation is in range")
	return v
}

func (fr *Frame) convert(x *ssa.Convert, h Heap) Heap {
	g := fr.g
	from, to := x.X.Type(), x.Type()
	v := fr.val(x.X)
	fw, fs, fint := intInfo(from)
	tw, tsgn, tint := intInfo(to)
	switch {
	case fint && tint:
		if g.intMode {
			// same mathematical value; narrowing / sign change must be representable
			flo, fhi := intRange(fw, fs)
			tlo, thi := intRange(tw, tsgn)
			if flo.Cmp(tlo) < 0 || fhi.Cmp(thi) > 0 {
				fr.overflowOblig(v.T, to, x.String(), x.Pos())
			}
			fr.vals[x] = &Val{T: v.T}
			return h
		}
		fr.vals[x] = &Val{T: g.define(fr.prefix+x.Name(), g.sortOf(to), convInt(v.T, fw, fs, tw))}
	case isString(to) && fint:
		fr.vals[x] = fr.symbolic("runestr_"+x.Name(), to)
	case isString(to):
		if sl, ok := from.Underlying().(*types.Slice); ok {
			if w, _, _ := intInfo(sl.Elem()); w == 8 {
				s := g.fresh(fr.prefix+"str_"+x.Name(), "Str")
				name, srt := g.elemArrName(sl.Elem())
				arr := g.heapArr(h, name, srt)
				g.defs = append(g.defs, fmt.Sprintf("(= (slen %s) (s_len %s))", s, v.T))
				g.defs = append(g.defs, fmt.Sprintf("(forall ((i %s)) (! (=> %s (= (sat %s i) (select (select %s (s_arr %s)) %s))) :pattern ((sat %s i))))", g.IS(), g.inRange("i", "(s_len "+v.T+")"), s, arr, v.T, g.iadd("(s_off "+v.T+")", "i"), s))
				fr.vals[x] = &Val{T: s}
				return h
			}
			fr.vals[x] = fr.symbolic("runesstr_"+x.Name(), to)
			return h
		}
		fr.vals[x] = &Val{T: v.T}
	case isString(from):
		if sl, ok := to.Underlying().(*types.Slice); ok {
			if w, _, _ := intInfo(sl.Elem()); w == 8 {
				r, nh := fr.freshRef(h, "bytes_"+x.Name())
				name, srt := g.elemArrName(sl.Elem())
				arr := g.heapArr(nh, name, srt)
				na := g.fresh(fr.prefix+"bytesarr", "(Array "+g.IS()+" "+g.byteSort()+")")
				g.defs = append(g.defs, fmt.Sprintf("(forall ((i %s)) (! (=> %s (= (select %s i) (sat %s i))) :pattern ((select %s i))))", g.IS(), g.inRange("i", "(slen "+v.T+")"), na, v.T, na))
				nh[name] = g.define(name, srt, fmt.Sprintf("(store %s %s %s)", arr, r, na))
				fr.vals[x] = &Val{T: g.define(fr.prefix+x.Name(), "Slice", fmt.Sprintf("(mk_slice %s %s (slen %s) (slen %s))", r, g.ilit(0), v.T, v.T))}
				return nh
			}
			fr.vals[x] = fr.symbolic("runes_"+x.Name(), to)
			return h
		}
		fr.vals[x] = &Val{T: v.T}
	case isFloat(from) || isFloat(to):
		if isFloat(from) && isFloat(to) && g.sortOf(from) == g.sortOf(to) {
			fr.vals[x] = &Val{T: v.T}
		} else {
			nv := g.define(fr.prefix+x.Name(), g.sortOf(to), fr.uf("fconv$"+sanitize(g.sortOf(to)), to, x.X))
			fr.vals[x] = &Val{T: nv}
			if tint {
				fr.assume(g.rangeFact(nv, to), "converted float is in range")
			}
		}
	default:
		if g.sortOf(from) == g.sortOf(to) {
			t := v.T
			if t == "" && v.A != nil {
				t = g.ptrTerm(v.A)
			}
			nv := fr.wrap(t, to)
			if v.A != nil {
				if _, isPtr := to.Underlying().(*types.Pointer); !isPtr {
					nv.A = v.A
				}
			}
			fr.vals[x] = nv
		} else {
			panic(genErr(fmt.Sprintf("convert %s -> %s", from, to)))
		}
	}
	return h
}

func (fr *Frame) mapStore(h Heap, mt *types.Map, m, k, v string) Heap {
	g := fr.g
	d, va, c := g.mapArrNames(mt)
	nh := h.clone()
	darr := g.heapArr(h, d, g.heapSort[d])
	varr := g.heapArr(h, va, g.heapSort[va])
	carr := g.heapArr(h, c, g.heapSort[c])
	had := fmt.Sprintf("(select (select %s %s) %s)", darr, m, k)
	nh[d] = g.define(d, g.heapSort[d], fmt.Sprintf("(store %s %s (store (select %s %s) %s true))", darr, m, darr, m, k))
	nh[va] = g.define(va, g.heapSort[va], fmt.Sprintf("(store %s %s (store (select %s %s) %s %s))", varr, m, varr, m, k, v))
	nh[c] = g.define(c, g.heapSort[c], fmt.Sprintf("(store %s %s (ite %s (select %s %s) %s))", carr, m, had, carr, m, g.iadd(fmt.Sprintf("(select %s %s)", carr, m), g.ilit(1))))
	return nh
}

func (fr *Frame) mapDelete(h Heap, mt *types.Map, m, k string) Heap {
	g := fr.g
	d, _, c := g.mapArrNames(mt)
	nh := h.clone()
	darr := g.heapArr(h, d, g.heapSort[d])
	carr := g.heapArr(h, c, g.heapSort[c])
	had := fmt.Sprintf("(select (select %s %s) %s)", darr, m, k)
	nh[d] = g.define(d, g.heapSort[d], fmt.Sprintf("(ite (= %s 0) %s (store %s %s (store (select %s %s) %s false)))", m, darr, darr, m, darr, m, k))
	nh[c] = g.define(c, g.heapSort[c], fmt.Sprintf("(ite (= %s 0) %s (store %s %s (ite %s %s (select %s %s))))", m, carr, carr, m, had, g.isub(fmt.Sprintf("(select %s %s)", carr, m), g.ilit(1)), carr, m))
	return nh
}

func (fr *Frame) sliceOp(x *ssa.Slice, h Heap) Heap {
	g := fr.g
	z := g.ilit(0)
	get := func(v ssa.Value, def string) string {
		if v == nil {
			return def
		}
		return fr.to64(fr.val(v).T, v.Type())
	}
	// 0 <= lo <= hi <= max <= cap, evaluated on the operands' own (already converted) values
	chain := func(vals ...string) string {
		var cs []string
		cs = append(cs, g.ile(z, vals[0]))
		for i := 0; i+1 < len(vals); i++ {
			cs = append(cs, g.ile(vals[i], vals[i+1]))
		}
		return and(cs...)
	}
	switch t := x.X.Type().Underlying().(type) {
	case *types.Slice:
		s := fr.val(x.X).T
		lo := get(x.Low, z)
		hi := get(x.High, fmt.Sprintf("(s_len %s)", s))
		mx := get(x.Max, fmt.Sprintf("(s_cap %s)", s))
		fr.oblig("slice", "safety", "", chain(lo, hi, mx, "(s_cap "+s+")"), "slice bounds in range: "+x.String(), x.Pos())
		fr.vals[x] = &Val{T: g.define(fr.prefix+x.Name(), "Slice", fmt.Sprintf("(mk_slice (s_arr %s) %s %s %s)", s, g.iadd("(s_off "+s+")", lo), g.isub(hi, lo), g.isub(mx, lo)))}
	case *types.Basic:
		s := fr.val(x.X).T
		lo := get(x.Low, z)
		hi := get(x.High, fmt.Sprintf("(slen %s)", s))
		fr.oblig("slice", "safety", "", chain(lo, hi, "(slen "+s+")"), "string slice bounds in range", x.Pos())
		r := g.fresh(fr.prefix+"substr", "Str")
		g.defs = append(g.defs, fmt.Sprintf("(=> %s (= (slen %s) %s))", chain(lo, hi, "(slen "+s+")"), r, g.isub(hi, lo)))
		g.defs = append(g.defs, fmt.Sprintf("(forall ((i %s)) (! (=> %s (= (sat %s i) (sat %s %s))) :pattern ((sat %s i))))", g.IS(), g.inRange("i", g.isub(hi, lo)), r, s, g.iadd(lo, "i"), r))
		fr.vals[x] = &Val{T: r}
	case *types.Pointer:
		at := t.Elem().Underlying().(*types.Array)
		a := fr.addrOf(x.X)
		if a.Kind != 0 || len(a.Sels) != 0 {
			panic(genErr("slicing an array embedded in another object is outside the subset"))
		}
		n := g.ilit(at.Len())
		lo := get(x.Low, z)
		hi := get(x.High, n)
		mx := get(x.Max, n)
		fr.oblig("slice", "safety", "", chain(lo, hi, mx, n), "slice bounds in range", x.Pos())
		fr.vals[x] = &Val{T: g.define(fr.prefix+x.Name(), "Slice", fmt.Sprintf("(mk_slice %s %s %s %s)", a.Base, lo, g.isub(hi, lo), g.isub(mx, lo)))}
	default:
		panic(genErr("slice of " + x.X.Type().String()))
	}
	return h
}
