package main

// Reading of contract files: comment-only Go files (//go:build verif) in /repo and
// *.spec files (same syntax, assumed contracts for dependencies) in /verif/specs.

import (
	"bufio"
	"fmt"
	"os"
	"path/filepath"
	"regexp"
	"sort"
	"strconv"
	"strings"
)

type Clause struct {
	Kind  string // requires ensures assume invariant decreases lemma assert
	Label string
	Expr  *SX
	Src   string
	Loop  int
	File  string
	Line  int
}

type FuncContract struct {
	Name         string // as written
	PkgPath      string // package of the contract file ("" for spec files: full names)
	Props        []string
	Trusted      bool // contract assumed, body not verified
	Inline       bool // calls are inlined (body translated at call site)
	Pure         bool // no modelled heap effect; result is a function of arguments and heap read
	MayPanic     bool
	NoSafety     bool // implicit safety obligations are not generated (stated in evidence)
	NoFrame      bool // the frame obligation is not generated (stated in evidence)
	ViaContract  bool // some verified unit calls this function through its contract (its frame matters)
	Requires     []Clause
	Ensures      []Clause
	Assumes      []Clause
	EnsuresGhost []Clause
	Modifies     []*SX
	ModAll       bool
	LoopInv      map[int][]Clause
	LoopDec      map[int]*Clause
	LoopMod      map[int][]*SX       // extra havoc targets inside loop K
	AtCall       map[string][]Clause // callee short name -> assertions checked at every call to it
	Protocols    []ProtoUse
	AtAtomic     map[int][]GhostUpd // ordinal of the atomic operation on a protected field -> ghost updates
	RangeInv     map[int][]Clause   // ordinal of the Range(func...) call -> invariants of the iteration
	AtMake       []Clause           // checked at every make([]T, n, c): n and c name the requested length and capacity
	File         string
	Line         int
	Used         bool
	Functype     bool // contract for a function type / interface method
	InputPath    bool
	IntMode      bool
	Swept        bool // created by a sweep directive (safety obligations only)
}

type SpecFunc struct {
	Name     string
	Params   []Binder
	Ret      string
	Body     *SX
	Uninterp bool
	PkgPath  string
	File     string
	Line     int
	Src      string
}

type GhostHeap struct {
	Name    string
	Params  []Binder
	Ret     string
	PkgPath string
}

type Lemma struct {
	Name    string
	Props   []string
	Expr    *SX
	Src     string
	PkgPath string
	File    string
	Line    int
	IntMode bool
}

// Protocol: rely/guarantee description of one shared word (see DESIGN.md 2.9).
type Protocol struct {
	Name    string
	Struct  string   // struct type name (package-local)
	Field   string   // protected field
	Ghosts  []string // ghost heaps keyed by the instance pointer
	Inv     string   // spec func (s, ghosts...) bool
	Rely    string   // spec func (me, s, ghosts..., s2, ghosts2...) bool
	Guar    string   // spec func (me, s, ghosts..., s2, ghosts2...) bool
	Exempt  []string // writers not under the protocol (listed as assumptions)
	PkgPath string
	File    string
	Line    int
}

type ProtoUse struct {
	Name string
	Inst *SX
}

type GhostUpd struct {
	Ghost string
	Expr  *SX
	Src   string
}

type Sweep struct {
	PkgPath  string
	Glob     string
	Props    []string
	IntMode  bool
	File     string
	Line     int
	Except   []string
	Requires []Clause
}

type Contracts struct {
	Sweeps    []*Sweep
	Protocols map[string]*Protocol
	Funcs     map[string]*FuncContract // key: pkgpath + "::" + name, or "::" + fullname
	SpecFuncs map[string]*SpecFunc
	Ghosts    map[string]*GhostHeap
	Lemmas    []*Lemma
	Guards    map[string]*Guard // pkgpath::Struct.field -> guarding lock field
	Files     []string
	Scan      map[string]int // mechanical scan: counts of assume/trusted/uninterpreted/pure/modifies *
}

func newContracts() *Contracts {
	return &Contracts{Protocols: map[string]*Protocol{}, Funcs: map[string]*FuncContract{}, SpecFuncs: map[string]*SpecFunc{}, Ghosts: map[string]*GhostHeap{}, Scan: map[string]int{}, Guards: map[string]*Guard{}}
}

var clauseKW = map[string]bool{"func": true, "spec": true, "lemma": true, "ghostheap": true, "props": true, "trusted": true, "inline": true,
	"pure": true, "may_panic": true, "requires": true, "ensures": true, "ensures_ghost": true, "assume": true, "modifies": true, "loop": true, "functype": true,
	"iface": true, "input_path": true, "no_safety": true, "package": true, "mode": true, "sweep": true, "at": true, "protocol": true, "guarded": true, "no_frame": true}

var labelRe = regexp.MustCompile(`^\[([A-Za-z0-9_.$#-]+)\]\s*`)

// loadContractFile parses one file. pkgPath is the import path the file belongs to ("" for spec files).
func (cs *Contracts) loadContractFile(path string, pkgPath string) error {
	f, err := os.Open(path)
	if err != nil {
		return err
	}
	defer f.Close()
	cs.Files = append(cs.Files, path)
	type rawClause struct {
		text string
		line int
	}
	var raws []rawClause
	sc := bufio.NewScanner(f)
	sc.Buffer(make([]byte, 1<<20), 1<<20)
	ln := 0
	for sc.Scan() {
		ln++
		line := strings.TrimSpace(sc.Text())
		if !strings.HasPrefix(line, "//@") {
			continue
		}
		body := strings.TrimSpace(strings.TrimPrefix(line, "//@"))
		if i := strings.Index(body, " -- "); i >= 0 { // trailing comment
			body = strings.TrimSpace(body[:i])
		}
		if strings.HasPrefix(body, "--") || body == "" {
			continue
		}
		first := body
		if i := strings.IndexAny(body, " \t"); i >= 0 {
			first = body[:i]
		}
		if clauseKW[first] {
			raws = append(raws, rawClause{body, ln})
		} else {
			if len(raws) == 0 {
				return fmt.Errorf("%s:%d: continuation line without clause", path, ln)
			}
			raws[len(raws)-1].text += " " + body
		}
	}
	var cur *FuncContract
	for _, rc := range raws {
		kw, rest := splitKW(rc.text)
		fail := func(f string, a ...interface{}) error {
			return fmt.Errorf("%s:%d: %s", path, rc.line, fmt.Sprintf(f, a...))
		}
		mkClause := func(kind string, src string, loop int) (Clause, error) {
			label := ""
			if m := labelRe.FindStringSubmatch(src); m != nil {
				label = m[1]
				src = src[len(m[0]):]
			}
			e, err := parseSpec(src)
			if err != nil {
				return Clause{}, fail("%v", err)
			}
			return Clause{Kind: kind, Label: label, Expr: e, Src: src, Loop: loop, File: path, Line: rc.line}, nil
		}
		switch kw {
		case "package":
			pkgPath = strings.TrimSpace(rest)
		case "func", "functype", "iface":
			name := strings.TrimSpace(rest)
			name = normFuncName(name)
			cur = &FuncContract{Name: name, PkgPath: pkgPath, LoopInv: map[int][]Clause{}, LoopDec: map[int]*Clause{}, LoopMod: map[int][]*SX{}, File: path, Line: rc.line}
			if kw != "func" {
				cur.Functype = true
				cur.Trusted = true
			}
			key := pkgPath + "::" + name
			if _, dup := cs.Funcs[key]; dup {
				return fail("duplicate contract for %s", name)
			}
			cs.Funcs[key] = cur
		case "protocol":
			fs := strings.Fields(rest)
			if cur == nil || (len(fs) > 1 && fs[1] == "field") {
				// protocol NAME field S.f ghosts g1 g2 inv I rely R guar G
				if len(fs) < 4 || fs[1] != "field" {
					return fail("protocol NAME field S.f ghosts g.. inv I rely R guar G")
				}
				pr := &Protocol{Name: fs[0], PkgPath: pkgPath, File: path, Line: rc.line}
				sf := strings.SplitN(fs[2], ".", 2)
				if len(sf) != 2 {
					return fail("protocol field must be Struct.field")
				}
				pr.Struct, pr.Field = sf[0], sf[1]
				state := ""
				for _, f := range fs[3:] {
					switch f {
					case "ghosts", "inv", "rely", "guar", "exempt":
						state = f
						continue
					}
					switch state {
					case "ghosts":
						pr.Ghosts = append(pr.Ghosts, f)
					case "inv":
						pr.Inv = f
					case "rely":
						pr.Rely = f
					case "guar":
						pr.Guar = f
					case "exempt":
						pr.Exempt = append(pr.Exempt, f)
					}
				}
				cs.Protocols[pr.Name] = pr
				cur = nil
				break
			}
			// inside a func block: protocol NAME at <expr>
			if len(fs) < 3 || fs[1] != "at" {
				return fail("protocol NAME at <instance expression>")
			}
			e, err := parseSpec(strings.TrimSpace(strings.SplitN(rest, " at ", 2)[1]))
			if err != nil {
				return fail("%v", err)
			}
			cur.Protocols = append(cur.Protocols, ProtoUse{Name: fs[0], Inst: e})
		case "sweep":
			// sweep <glob> props A B [mode int] [except f g]: safety-only contracts for every matching function
			fs := strings.Fields(rest)
			if len(fs) < 1 {
				return fail("sweep needs a pattern")
			}
			sw := &Sweep{PkgPath: pkgPath, Glob: fs[0], File: path, Line: rc.line}
			if i := strings.Index(rest, " requires "); i >= 0 {
				c, err := mkClause("requires", strings.TrimSpace(rest[i+len(" requires "):]), 0)
				if err != nil {
					return err
				}
				sw.Requires = append(sw.Requires, c)
				fs = strings.Fields(rest[:i])
			}
			state := ""
			for _, f := range fs[1:] {
				switch f {
				case "props", "mode", "except":
					state = f
					continue
				}
				switch state {
				case "props":
					sw.Props = append(sw.Props, f)
				case "mode":
					sw.IntMode = f == "int"
				case "except":
					sw.Except = append(sw.Except, f)
				}
			}
			cs.Sweeps = append(cs.Sweeps, sw)
			cur = nil
		case "guarded":
			// guarded Struct.field by lockfield
			fs := strings.Fields(rest)
			if len(fs) != 3 || fs[1] != "by" || !strings.Contains(fs[0], ".") {
				return fail("guarded Struct.field by lockfield")
			}
			sf := strings.SplitN(fs[0], ".", 2)
			cs.Guards[pkgPath+"::"+fs[0]] = &Guard{PkgPath: pkgPath, Struct: sf[0], Field: sf[1], Lock: fs[2], File: path, Line: rc.line}
			cur = nil
		case "spec":
			sf, err := parseSpecFunc(rest)
			if err != nil {
				return fail("%v", err)
			}
			sf.PkgPath, sf.File, sf.Line, sf.Src = pkgPath, path, rc.line, rest
			if sf.Uninterp {
				cs.Scan["uninterpreted"]++
			}
			if _, dup := cs.SpecFuncs[sf.Name]; dup {
				return fail("duplicate spec func %s", sf.Name)
			}
			cs.SpecFuncs[sf.Name] = sf
			cur = nil
		case "ghostheap":
			sf, err := parseSpecFunc("func " + rest + " uninterpreted")
			if err != nil {
				return fail("%v", err)
			}
			cs.Ghosts[sf.Name] = &GhostHeap{Name: sf.Name, Params: sf.Params, Ret: sf.Ret, PkgPath: pkgPath}
			cur = nil
		case "lemma":
			// lemma NAME [props A B]: expr
			i := strings.Index(rest, ":")
			if i < 0 {
				return fail("lemma needs ':'")
			}
			head := strings.Fields(rest[:i])
			if len(head) == 0 {
				return fail("lemma needs a name")
			}
			lm := &Lemma{Name: head[0], PkgPath: pkgPath, File: path, Line: rc.line, Src: strings.TrimSpace(rest[i+1:])}
			if len(head) > 1 && head[1] == "int" {
				lm.IntMode = true
				head = append(head[:1], head[2:]...)
			}
			if len(head) > 2 && head[1] == "props" {
				lm.Props = head[2:]
			}
			e, err := parseSpec(lm.Src)
			if err != nil {
				return fail("%v", err)
			}
			lm.Expr = e
			cs.Lemmas = append(cs.Lemmas, lm)
			cur = nil
		default:
			if cur == nil {
				return fail("clause %q outside a func block", kw)
			}
			switch kw {
			case "props":
				cur.Props = append(cur.Props, strings.Fields(rest)...)
			case "trusted":
				cur.Trusted = true
				cs.Scan["trusted"]++
			case "inline":
				cur.Inline = true
			case "pure":
				cur.Pure = true
				cs.Scan["pure"]++
			case "may_panic":
				cur.MayPanic = true
			case "no_safety":
				cur.NoSafety = true
			case "no_frame":
				cur.NoFrame = true
				cs.Scan["no_frame"]++
			case "input_path":
				cur.InputPath = true
			case "mode":
				switch strings.TrimSpace(rest) {
				case "int":
					cur.IntMode = true
				case "bv":
					cur.IntMode = false
				default:
					return fail("mode int|bv")
				}
			case "ensures_ghost":
				// assumed at call sites, not checked against the body: statements about ghost counters the
				// code cannot update itself (listed as assumptions)
				c, err := mkClause("ensures_ghost", rest, 0)
				if err != nil {
					return err
				}
				cur.EnsuresGhost = append(cur.EnsuresGhost, c)
				cs.Scan["ensures_ghost"]++
			case "requires", "ensures", "assume":
				c, err := mkClause(kw, rest, 0)
				if err != nil {
					return err
				}
				switch kw {
				case "requires":
					cur.Requires = append(cur.Requires, c)
				case "ensures":
					cur.Ensures = append(cur.Ensures, c)
				case "assume":
					cur.Assumes = append(cur.Assumes, c)
					cs.Scan["assume"]++
				}
			case "modifies":
				if strings.TrimSpace(rest) == "*" {
					cur.ModAll = true
					cs.Scan["modifies *"]++
					break
				}
				for _, part := range splitTop(rest) {
					e, err := parseSpec(part)
					if err != nil {
						return fail("%v", err)
					}
					cur.Modifies = append(cur.Modifies, e)
				}
			case "at":
				// at call <callee> assert [label] expr
				fs := strings.Fields(rest)
				if len(fs) >= 4 && fs[0] == "go" && fs[1] == "ghost" {
					// at go ghost g = expr   (ghost step performed when the goroutine is started)
					idx := strings.Index(rest, "=")
					if idx < 0 {
						return fail("at go ghost g = expr")
					}
					src := strings.TrimSpace(rest[idx+1:])
					e, err := parseSpec(src)
					if err != nil {
						return fail("%v", err)
					}
					if cur.AtAtomic == nil {
						cur.AtAtomic = map[int][]GhostUpd{}
					}
					cur.AtAtomic[-1] = append(cur.AtAtomic[-1], GhostUpd{Ghost: fs[2], Expr: e, Src: src})
					break
				}
				if len(fs) >= 5 && fs[0] == "atomic" && fs[2] == "ghost" {
					// at atomic K ghost g = expr
					k, err := strconv.Atoi(fs[1])
					if err != nil {
						return fail("at atomic K ghost g = expr")
					}
					idx := strings.Index(rest, "=")
					if idx < 0 {
						return fail("at atomic K ghost g = expr")
					}
					src := strings.TrimSpace(rest[idx+1:])
					e, err := parseSpec(src)
					if err != nil {
						return fail("%v", err)
					}
					if cur.AtAtomic == nil {
						cur.AtAtomic = map[int][]GhostUpd{}
					}
					cur.AtAtomic[k] = append(cur.AtAtomic[k], GhostUpd{Ghost: fs[3], Expr: e, Src: src})
					break
				}
				if len(fs) >= 3 && fs[0] == "make" && fs[1] == "assert" {
					// at make assert [label] expr   (n, c: requested length and capacity)
					idx := strings.Index(rest, " assert ")
					c, err := mkClause("assert", strings.TrimSpace(rest[idx+len(" assert "):]), 0)
					if err != nil {
						return err
					}
					cur.AtMake = append(cur.AtMake, c)
					break
				}
				if len(fs) >= 4 && fs[0] == "range" && fs[2] == "invariant" {
					// at range K invariant [label] expr   (K-th m.Range(func...) call of the function)
					k, err := strconv.Atoi(fs[1])
					if err != nil {
						return fail("at range K invariant [label] expr")
					}
					idx := strings.Index(rest, " invariant ")
					c, err := mkClause("invariant", strings.TrimSpace(rest[idx+len(" invariant "):]), k)
					if err != nil {
						return err
					}
					if cur.RangeInv == nil {
						cur.RangeInv = map[int][]Clause{}
					}
					cur.RangeInv[k] = append(cur.RangeInv[k], c)
					break
				}
				if len(fs) < 4 || fs[0] != "call" || fs[2] != "assert" {
					return fail("at call <callee> assert [label] expr")
				}
				idx := strings.Index(rest, " assert ")
				c, err := mkClause("assert", strings.TrimSpace(rest[idx+len(" assert "):]), 0)
				if err != nil {
					return err
				}
				if cur.AtCall == nil {
					cur.AtCall = map[string][]Clause{}
				}
				cur.AtCall[fs[1]] = append(cur.AtCall[fs[1]], c)
			case "loop":
				fs := strings.Fields(rest)
				if len(fs) < 3 {
					return fail("loop K invariant|decreases|modifies expr")
				}
				k, err := strconv.Atoi(fs[0])
				if err != nil {
					return fail("loop ordinal: %v", err)
				}
				src := strings.TrimSpace(strings.TrimPrefix(strings.TrimSpace(strings.TrimPrefix(rest, fs[0])), fs[1]))
				switch fs[1] {
				case "invariant":
					c, err := mkClause("invariant", src, k)
					if err != nil {
						return err
					}
					cur.LoopInv[k] = append(cur.LoopInv[k], c)
				case "decreases":
					c, err := mkClause("decreases", src, k)
					if err != nil {
						return err
					}
					cur.LoopDec[k] = &c
				case "modifies":
					for _, part := range splitTop(src) {
						e, err := parseSpec(part)
						if err != nil {
							return fail("%v", err)
						}
						cur.LoopMod[k] = append(cur.LoopMod[k], e)
					}
				default:
					return fail("unknown loop clause %q", fs[1])
				}
			default:
				return fail("unknown clause %q", kw)
			}
		}
	}
	return nil
}

func splitKW(s string) (string, string) {
	s = strings.TrimSpace(s)
	if i := strings.IndexAny(s, " \t"); i >= 0 {
		return s[:i], strings.TrimSpace(s[i+1:])
	}
	return s, ""
}

// splitTop splits on commas that are not inside brackets.
func splitTop(s string) []string {
	var out []string
	depth := 0
	last := 0
	for i, c := range s {
		switch c {
		case '(', '[':
			depth++
		case ')', ']':
			depth--
		case ',':
			if depth == 0 {
				out = append(out, strings.TrimSpace(s[last:i]))
				last = i + 1
			}
		}
	}
	if strings.TrimSpace(s[last:]) != "" {
		out = append(out, strings.TrimSpace(s[last:]))
	}
	return out
}

// normFuncName turns "(n *node) MakeRef" into "(*node).MakeRef"; other forms pass through.
var recvRe = regexp.MustCompile(`^\(\s*([A-Za-z_][A-Za-z0-9_]*)\s+(\*?)([A-Za-z_][A-Za-z0-9_.\[\]]*)\s*\)\s*([A-Za-z_][A-Za-z0-9_$]*)$`)

func normFuncName(s string) string {
	if m := recvRe.FindStringSubmatch(s); m != nil {
		if m[2] == "*" {
			return "(*" + m[3] + ")." + m[4]
		}
		return "(" + m[3] + ")." + m[4]
	}
	return s
}

var specFuncRe = regexp.MustCompile(`^func\s+([A-Za-z_][A-Za-z0-9_]*)\s*\(([^)]*)\)\s*([^=]*?)\s*(=\s*(.*)|uninterpreted)$`)

func parseSpecFunc(s string) (*SpecFunc, error) {
	m := specFuncRe.FindStringSubmatch(strings.TrimSpace(s))
	if m == nil {
		return nil, fmt.Errorf("cannot parse spec func %q", s)
	}
	sf := &SpecFunc{Name: m[1], Ret: strings.TrimSpace(m[3])}
	if sf.Ret == "" {
		sf.Ret = "bool"
	}
	ps := strings.TrimSpace(m[2])
	if ps != "" {
		var pend []string
		for _, part := range strings.Split(ps, ",") {
			fs := strings.Fields(part)
			switch len(fs) {
			case 1:
				pend = append(pend, fs[0])
			case 2:
				for _, n := range pend {
					sf.Params = append(sf.Params, Binder{n, fs[1]})
				}
				pend = nil
				sf.Params = append(sf.Params, Binder{fs[0], fs[1]})
			default:
				return nil, fmt.Errorf("bad parameter %q", part)
			}
		}
		if len(pend) > 0 {
			return nil, fmt.Errorf("parameters without type in %q", s)
		}
	}
	if m[4] == "uninterpreted" {
		sf.Uninterp = true
		return sf, nil
	}
	e, err := parseSpec(m[5])
	if err != nil {
		return nil, err
	}
	sf.Body = e
	return sf, nil
}

// loadAllContracts reads every zz_contracts_verif.go under root (package path derived from the
// directory) and every *.spec under specDir.
func loadAllContracts(root, modPath, specDir string) (*Contracts, error) {
	cs := newContracts()
	var files []string
	filepath.Walk(root, func(p string, info os.FileInfo, err error) error {
		if err != nil {
			return nil
		}
		if info.IsDir() && (info.Name() == ".git" || info.Name() == "testing") {
			return filepath.SkipDir
		}
		if !info.IsDir() && strings.HasPrefix(info.Name(), "zz_contracts") && strings.HasSuffix(info.Name(), "_verif.go") {
			files = append(files, p)
		}
		return nil
	})
	sort.Strings(files)
	for _, p := range files {
		rel, _ := filepath.Rel(root, filepath.Dir(p))
		pkg := modPath
		if rel != "." {
			pkg = modPath + "/" + filepath.ToSlash(rel)
		}
		if err := cs.loadContractFile(p, pkg); err != nil {
			return nil, err
		}
	}
	specs, _ := filepath.Glob(filepath.Join(specDir, "*.spec"))
	sort.Strings(specs)
	for _, p := range specs {
		if err := cs.loadContractFile(p, ""); err != nil {
			return nil, err
		}
	}
	return cs, nil
}
