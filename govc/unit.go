package main

import (
	"fmt"
	"go/types"
	"sort"
	"strings"

	"golang.org/x/tools/go/ssa"
)

type UnitResult struct {
	Name      string
	Kind      string // func | lemma
	Func      string
	File      string
	Obligs    []*ObligResult
	Queries   int
	Warnings  []string
	Havocs    map[string]int
	Err       string
	VCBytes   int
	Results   []*QResult
	Inputs    []string
	Assumed   []string
	Mode      string
	Loops     int
	LoopsInv  int
	Inlined   []string
	GenSecs   float64
	SolveSecs float64
}

func unitNameOf(fn *ssa.Function) string {
	pkgPath, rel, _ := funcKeyNames(fn)
	short := pkgPath
	if i := strings.LastIndex(pkgPath, "/"); i >= 0 {
		short = pkgPath[i+1:]
	}
	return short + "." + rel
}

// genFunc generates the verification conditions of one function under contract.
func (p *Program) genFunc(fc *FuncContract) (g *Gen, fr *Frame, ur *UnitResult) {
	ur = &UnitResult{Kind: "func", File: fc.File, Mode: "bv (machine integers are bit-vectors of their declared width; wrap-around exact)"}
	if fc.IntMode {
		ur.Mode = "int (integers are mathematical; every + - * << and narrowing conversion carries a no-overflow obligation)"
	}
	fn := p.findFunc(fc)
	if fn == nil {
		ur.Name = fc.Name
		ur.Err = "function under contract not found in the source: " + fc.PkgPath + " " + fc.Name
		return nil, nil, ur
	}
	ur.Name = unitNameOf(fn)
	ur.Func = fn.String()
	g = newGen(p, fc.IntMode)
	g.edgeCovers = p.EdgeCovers
	if fn.Pkg != nil {
		g.curPkg = fn.Pkg.Pkg
	}
	p.CurPkgPath, _, _ = funcKeyNames(fn)
	fr = newFrame(g, fn, fc, "", 0)
	fr.top = true
	fr.unitName = ur.Name
	fr.safety = !fc.NoSafety
	defer func() {
		if r := recover(); r != nil {
			if ge, ok := r.(genErr); ok {
				ur.Err = string(ge)
				return
			}
			panic(r)
		}
	}()
	h := Heap{}
	// A-LOCKS: a unit is entered with none of the mutexes it operates on held by the entering thread,
	// unless its contract says otherwise (lock preconditions are ordinary requires clauses, checked at
	// the call sites of verified callers)
	for _, k := range []string{"W", "R"} {
		n, _ := g.lockArr(k)
		h[n] = "((as const (Array Int Bool)) false)"
	}
	fr.curGuard = "true"
	var args []*Val
	for i, prm := range fn.Params {
		v := fr.symbolic("p$"+prm.Name(), prm.Type())
		args = append(args, v)
		fr.assumeTypeFacts(v, prm.Type(), h)
		// slice-typed fields of a struct passed by pointer are well-formed slices on entry (a fact of
		// every Go heap; without it "len(b.B) + 4" may wrap in a counterexample)
		if pt, ok := prm.Type().Underlying().(*types.Pointer); ok && g.isSplitStruct(pt.Elem()) {
			st := pt.Elem().Underlying().(*types.Struct)
			for fi := 0; fi < st.NumFields(); fi++ {
				if _, isSlice := st.Field(fi).Type().Underlying().(*types.Slice); isSlice {
					a := &Addr{Base: v.T, T: pt.Elem()}
					lv := g.load(h, a.extend(Sel{Field: fi, StructT: pt.Elem()}))
					if f := fr.typeFacts(lv, st.Field(fi).Type(), h); f != "true" {
						fr.assume(implies(fmt.Sprintf("(not (= %s 0))", v.T), f), "slice field of a struct parameter is a well-formed slice")
					}
				}
			}
		}
		if i == 0 && fn.Signature.Recv() != nil {
			if _, isPtr := prm.Type().Underlying().(*types.Pointer); isPtr {
				fr.assume(fmt.Sprintf("(not (= %s 0))", v.T), "receiver is not nil")
				ur.Assumed = append(ur.Assumed, "receiver of "+ur.Name+" is not nil")
			}
		}
	}
	for _, fv := range fn.FreeVars {
		v := fr.symbolic("fv$"+fv.Name(), fv.Type())
		fr.vals[fv] = v
		fr.assumeTypeFacts(v, fv.Type(), h)
		if _, isPtr := fv.Type().Underlying().(*types.Pointer); isPtr {
			fr.assume(fmt.Sprintf("(not (= %s 0))", v.T), "captured variable cell is not nil")
		}
	}
	// preconditions
	pre := fr.newSpecEnv(h, h)
	for i, prm := range fn.Params {
		pre.vars[prm.Name()] = &SVal{V: args[i], T: prm.Type()}
	}
	for _, fv := range fn.FreeVars {
		pre.vars[fv.Name()] = freeVarSVal(fr.vals[fv], fv.Type())
	}
	for _, rq := range fc.Requires {
		pre.where = fmt.Sprintf("%s:%d", rq.File, rq.Line)
		fr.assume(pre.boolTerm(rq.Expr), "requires "+rq.Src)
	}
	for _, as := range fc.Assumes {
		pre.where = fmt.Sprintf("%s:%d", as.File, as.Line)
		fr.assume(pre.boolTerm(as.Expr), "assume "+as.Src)
		ur.Assumed = append(ur.Assumed, ur.Name+": assume "+as.Src)
	}
	// shared words under a protocol satisfy its invariant when the function is entered
	func() {
		defer func() {
			if r := recover(); r != nil {
				fr.protos = nil // instance names a local: resolved (and Inv assumed) at the first atomic operation
			}
		}()
		for _, pi := range fr.protoInsts(h) {
			fr.assume(fr.callSpecBool(pi.pr.Inv, h, fr.protoState(pi, h)), "invariant of protocol "+pi.pr.Name+" at entry")
		}
	}()
	fr.run(args, "true", h)
	ur.Loops = len(fr.loops)
	for _, li := range fr.loops {
		if len(fc.LoopInv[li.ord]) > 0 {
			ur.LoopsInv++
		}
	}
	// vacuity guard: some return must be reachable under the contract
	var guards []string
	for _, r := range fr.rets {
		guards = append(guards, r.guard)
	}
	if len(guards) > 0 {
		g.items = append(g.items, Item{Oblig: true, Guard: "true", F: or(guards...), Name: ur.Name + ".cover", Kind: "cover", Group: "cover", Pos: g.posOf(fn, fn.Pos())})
	}
	// inputs for counterexample reporting
	ur.Inputs = nil
	return g, fr, ur
}

func (fr *Frame) inputTerms() (terms, names []string) {
	g := fr.g
	add := func(t, n string) {
		terms = append(terms, t)
		names = append(names, n)
	}
	var walk func(name string, term string, t types.Type, depth int)
	walk = func(name string, term string, t types.Type, depth int) {
		if depth > 3 {
			return
		}
		switch u := t.Underlying().(type) {
		case *types.Basic:
			if isString(t) {
				add(fmt.Sprintf("(slen %s)", term), "len("+name+")")
				for i := 0; i < 8; i++ {
					add(fmt.Sprintf("(sat %s %s)", term, g.ilit(int64(i))), fmt.Sprintf("%s[%d]", name, i))
				}
				return
			}
			add(term, name)
		case *types.Slice:
			add(fmt.Sprintf("(s_len %s)", term), "len("+name+")")
			add(fmt.Sprintf("(s_cap %s)", term), "cap("+name+")")
			if w, _, ok := intInfo(u.Elem()); ok {
				_ = w
				nm, srt := g.elemArrName(u.Elem())
				arr := g.heapArr(fr.entry, nm, srt)
				for i := 0; i < 24; i++ {
					add(fmt.Sprintf("(select (select %s (s_arr %s)) %s)", arr, term, g.iadd("(s_off "+term+")", g.ilit(int64(i)))), fmt.Sprintf("%s[%d]", name, i))
				}
			}
		case *types.Pointer:
			add(term, name+"(ref)")
			if g.isSplitStruct(u.Elem()) {
				st := u.Elem().Underlying().(*types.Struct)
				for i := 0; i < st.NumFields(); i++ {
					an, as := g.fieldArrName(u.Elem(), i)
					if _, known := g.heapSort[an]; !known {
						continue
					}
					ft := st.Field(i).Type()
					switch ft.Underlying().(type) {
					case *types.Basic, *types.Slice:
						walk(name+"."+st.Field(i).Name(), fmt.Sprintf("(select %s %s)", g.heapArr(fr.entry, an, as), term), ft, depth+1)
					}
				}
			}
		case *types.Struct:
			if g.isOpaqueStruct(t) {
				return
			}
			for i := 0; i < u.NumFields(); i++ {
				ft := u.Field(i).Type()
				walk(name+"."+u.Field(i).Name(), g.getPath(term, t, []Sel{{Field: i, StructT: t}}), ft, depth+1)
			}
		case *types.Array:
			if u.Len() <= 8 {
				for i := int64(0); i < u.Len(); i++ {
					walk(fmt.Sprintf("%s[%d]", name, i), fmt.Sprintf("(select %s %s)", term, g.ilit(i)), u.Elem(), depth+1)
				}
			}
		case *types.Interface:
			add(fmt.Sprintf("(i_tag %s)", term), name+"(tag)")
		}
	}
	for _, p := range fr.fn.Params {
		v := fr.vals[p]
		if v == nil || v.T == "" {
			continue
		}
		walk(p.Name(), v.T, p.Type(), 0)
	}
	return
}

// genLemma: a closed formula over spec functions.
func (p *Program) genLemma(lm *Lemma) (*Gen, *UnitResult) {
	ur := &UnitResult{Kind: "lemma", Name: "lemma." + lm.Name, File: lm.File, Mode: "bv"}
	if lm.IntMode {
		ur.Mode = "int (mathematical integers)"
	}
	g := newGen(p, lm.IntMode)
	defer func() {
		if r := recover(); r != nil {
			if ge, ok := r.(genErr); ok {
				ur.Err = string(ge)
				return
			}
			panic(r)
		}
	}()
	fr := newFrame(g, nil, nil, "", 0)
	fr.unitName = "lemma"
	fr.curGuard = "true"
	env := &SEnv{fr: fr, g: g, vars: map[string]*SVal{}, heap: Heap{}, old: Heap{}, pkg: p.pkgByPath(lm.PkgPath), where: fmt.Sprintf("%s:%d", lm.File, lm.Line)}
	body := lm.Expr
	if body.Op == "quant" && body.Tok == "forall" {
		// top-level universals become free constants so that a counterexample names them
		for _, b := range body.Bind {
			t := env.resolveType(b.Type)
			c := g.fresh("lemma$"+b.Name, g.sortOf(t))
			env.vars[b.Name] = &SVal{V: fr.wrap(c, t), T: t}
			g.lemmaTerms = append(g.lemmaTerms, c)
			g.lemmaNames = append(g.lemmaNames, b.Name)
		}
		body = body.Args[0]
	}
	f := env.boolTerm(body)
	g.items = append(g.items, Item{Oblig: true, Guard: "true", F: f, Name: "lemma." + lm.Name, Kind: "lemma", Pos: fmt.Sprintf("%s:%d", lm.File, lm.Line), Src: lm.Src})
	return g, ur
}

func (ur *UnitResult) finish(g *Gen, rs []*QResult) {
	ur.Results = rs
	ur.Queries = len(rs)
	ur.Obligs = summarise(rs)
	if g != nil {
		ur.Warnings = g.warnings
		ur.Havocs = g.havocs
		ur.VCBytes = g.vcBytes
	}
	for _, r := range rs {
		ur.SolveSecs += r.Secs
	}
}

func sortedHavocs(m map[string]int) []string {
	var ks []string
	for k, n := range m {
		ks = append(ks, fmt.Sprintf("%s x%d", k, n))
	}
	sort.Strings(ks)
	return ks
}
