package main

// Range calls: m.Range(func(k, v) bool { ... }) on sync.Map and lib.Map[K,V] (Range, RangeLock).
// The call is translated as a loop over the keys of the map, cut like every other loop:
//
//	establish:  the caller's `at range K invariant` clauses hold with nothing seen yet
//	havoc:      whatever the closure body may write, and the seen-set; invariants assumed
//	one step:   an unseen present key k is passed to the closure (its body is translated in place,
//	            free variables bound from the MakeClosure); invariants must hold with k seen
//	exit:       the havocked state, with "every present key has been seen" unless the closure may
//	            return false (then nothing is known about how far the iteration went)
//
// Inside the invariants rseen(K, k) reads the seen-set of the K-th range call of the function
// (source order). The map domain is the ghost view smHas/smVal for sync.Map and the Go map m.m
// for lib.Map.

import (
	"fmt"
	"go/constant"
	"go/types"
	"sort"
	"strings"

	"golang.org/x/tools/go/ssa"
)

func rangeCallKind(key string) string {
	switch {
	case key == "(*sync.Map).Range":
		return "syncmap"
	case strings.HasPrefix(key, "(*ergo.services/ergo/lib.Map[") && (strings.HasSuffix(key, ").Range") || strings.HasSuffix(key, ").RangeLock")):
		return "libmap"
	}
	return ""
}

func calleeKey(callee *ssa.Function) string {
	if callee == nil {
		return ""
	}
	if callee.Origin() != nil {
		return callee.Origin().String()
	}
	return callee.String()
}

// closureOf resolves the function literal passed to a range call.
func closureOf(v ssa.Value) (*ssa.Function, []ssa.Value) {
	switch x := v.(type) {
	case *ssa.MakeClosure:
		if fn, ok := x.Fn.(*ssa.Function); ok {
			return fn, x.Bindings
		}
	case *ssa.Function:
		return x, nil
	}
	return nil, nil
}

// rangeOrdinal numbers the range calls of the function in source order (1-based).
func (fr *Frame) rangeOrdinal(c *ssa.CallCommon) int {
	if fr.rangeOrd == nil {
		fr.rangeOrd = map[*ssa.CallCommon]int{}
		var list []*ssa.CallCommon
		for _, b := range fr.fn.Blocks {
			for _, in := range b.Instrs {
				ci, ok := in.(ssa.CallInstruction)
				if !ok {
					continue
				}
				cc := ci.Common()
				if rangeCallKind(calleeKey(cc.StaticCallee())) != "" {
					list = append(list, cc)
				}
			}
		}
		sort.SliceStable(list, func(i, j int) bool { return list[i].Pos() < list[j].Pos() })
		for i, cc := range list {
			fr.rangeOrd[cc] = i + 1
		}
	}
	return fr.rangeOrd[c]
}

// alwaysTrue: every return of the closure yields the constant true (the iteration is never cut short).
func alwaysTrue(fn *ssa.Function) bool {
	for _, b := range fn.Blocks {
		for _, in := range b.Instrs {
			r, ok := in.(*ssa.Return)
			if !ok {
				continue
			}
			if len(r.Results) != 1 {
				return false
			}
			c, ok := r.Results[0].(*ssa.Const)
			if !ok || c.Value == nil || c.Value.Kind() != constant.Bool || !constant.BoolVal(c.Value) {
				return false
			}
		}
	}
	return true
}

type rangeDom struct {
	keyT, valT types.Type
	has        func(h Heap, k string) string
	val        func(h Heap, k string) string
}

func (fr *Frame) rangeDomain(kind string, callee *ssa.Function, args []*Val, h Heap) *rangeDom {
	g := fr.g
	switch kind {
	case "syncmap":
		anyT := types.NewInterfaceType(nil, nil)
		m := fr.argTerm(args[0])
		ghHas, ghVal := g.P.Contracts.Ghosts["smHas"], g.P.Contracts.Ghosts["smVal"]
		if ghHas == nil || ghVal == nil {
			panic(genErr("range over sync.Map needs the smHas/smVal ghost heaps"))
		}
		env := fr.newSpecEnv(h, h)
		hn, hs, _, _ := env.ghostName(ghHas)
		vn, vs, _, _ := env.ghostName(ghVal)
		return &rangeDom{keyT: anyT, valT: anyT,
			has: func(h Heap, k string) string {
				return fmt.Sprintf("(select (select %s %s) %s)", g.heapArr(h, hn, hs), m, k)
			},
			val: func(h Heap, k string) string {
				return fmt.Sprintf("(select (select %s %s) %s)", g.heapArr(h, vn, vs), m, k)
			}}
	case "libmap":
		recv := callee.Signature.Recv().Type().Underlying().(*types.Pointer).Elem()
		st := recv.Underlying().(*types.Struct)
		fi := -1
		for i := 0; i < st.NumFields(); i++ {
			if st.Field(i).Name() == "m" {
				fi = i
			}
		}
		if fi < 0 {
			panic(genErr("lib.Map without field m"))
		}
		mt, ok := st.Field(fi).Type().Underlying().(*types.Map)
		if !ok {
			panic(genErr("lib.Map.m is not a map"))
		}
		a := args[0].A
		if a == nil {
			a = &Addr{Base: args[0].T, T: recv}
		}
		fa := a.extend(Sel{Field: fi, StructT: recv})
		d, v, _ := g.mapArrNames(mt)
		return &rangeDom{keyT: mt.Key(), valT: mt.Elem(),
			has: func(h Heap, k string) string {
				mref := g.load(h, fa)
				return fmt.Sprintf("(and (not (= %s 0)) (select (select %s %s) %s))", mref, g.heapArr(h, d, g.heapSort[d]), mref, k)
			},
			val: func(h Heap, k string) string {
				mref := g.load(h, fa)
				return fmt.Sprintf("(select (select %s %s) %s)", g.heapArr(h, v, g.heapSort[v]), mref, k)
			}}
	}
	return nil
}

// havocNames havocs whole heap arrays by name (as a loop cut does).
func (fr *Frame) havocNames(h Heap, names []string) Heap {
	g := fr.g
	nh := h.clone()
	oldAlloc := fr.allocOf(h)
	na := g.fresh("$alloc", "Int")
	g.defs = append(g.defs, fmt.Sprintf("(>= %s %s)", na, oldAlloc))
	names = uniq(names)
	sort.Strings(names)
	for _, n := range names {
		srt, ok := g.heapSort[n]
		if !ok {
			continue
		}
		g.heapArr(h, n, srt)
		nh[n] = g.fresh(n, srt)
		g.closureAxiomAt(n, nh[n], srt, na)
	}
	nh["$alloc"] = na
	return nh
}

func (fr *Frame) rangeCall(kind string, callee *ssa.Function, x *ssa.Call, c *ssa.CallCommon, args []*Val, h Heap) (Heap, bool) {
	g := fr.g
	if len(c.Args) < 2 || fr.depth >= 4 {
		return h, false
	}
	fn, binds := closureOf(c.Args[len(c.Args)-1])
	if fn == nil || len(fn.Blocks) == 0 || len(fn.Params) != 2 {
		return h, false
	}
	if a := args[0]; a.A != nil && a.A.Kind == 0 && len(a.A.Sels) == 0 {
		fr.nilCheck(a.A, c.Pos(), "range call receiver")
	}
	// lib.Map.Range holds the map's read lock while the callback runs (RangeLock: the write lock)
	var mapMu string
	lockKind := ""
	if kind == "libmap" {
		recv := callee.Signature.Recv().Type().Underlying().(*types.Pointer).Elem()
		if st, ok := recv.Underlying().(*types.Struct); ok {
			for i := 0; i < st.NumFields(); i++ {
				if isLockType(st.Field(i).Type()) && st.Field(i).Type().String() != "sync.Map" {
					a := args[0].A
					if a == nil {
						a = &Addr{Base: args[0].T, T: recv}
					}
					mapMu = g.ptrTerm(a.extend(Sel{Field: i, StructT: recv}))
					lockKind = "RLock"
					if strings.HasSuffix(calleeKey(callee), ").RangeLock") {
						lockKind = "Lock"
					}
				}
			}
		}
		if mapMu != "" {
			h = fr.lockOp(lockKind, mapMu, h)
		}
	}
	dom := fr.rangeDomain(kind, callee, args, h)
	ks := g.sortOf(dom.keyT)
	seenSort := "(Array " + ks + " Bool)"
	ord := 0
	var invs []Clause
	if fr.top && fr.fc != nil {
		ord = fr.rangeOrdinal(c)
		invs = fr.fc.RangeInv[ord]
	}
	evalInv := func(cl Clause, hh Heap, seen string) string {
		env := fr.newSpecEnv(hh, fr.entry)
		fr.bindParams(env)
		env.where = fmt.Sprintf("%s:%d", cl.File, cl.Line)
		if x != nil {
			env.locals = func(name string) *SVal { return fr.localBefore(name, x, hh) }
		}
		env.rangeSeen = map[int]string{ord: seen}
		env.rangeKeyT = map[int]types.Type{ord: dom.keyT}
		return env.boolTerm(cl.Expr)
	}
	label := func(k int, cl Clause) string {
		if cl.Label != "" {
			return cl.Label
		}
		return fmt.Sprintf("range%d.inv%d", ord, k+1)
	}
	// establish
	seen0 := fmt.Sprintf("((as const %s) false)", seenSort)
	for k, cl := range invs {
		fr.oblig("invariant", "", label(k, cl)+".establish", evalInv(cl, h, seen0), cl.Src, c.Pos())
	}
	// the frame so far is an implicit invariant of the iteration (as for loops)
	if fr.frameActive() {
		fr.frameOblig("on range entry", h, c.Pos())
	}
	// havoc what the closure body may write
	names, all := fr.bodyModNames(fn, fr.depth)
	var hL Heap
	if all {
		hL = fr.havocAll(h)
	} else {
		hL = fr.havocNames(h, names)
	}
	if mapMu != "" {
		// the map's lock is held at the head of every iteration, whatever the body did in between
		k := "R"
		if lockKind == "Lock" {
			k = "W"
		}
		n, s := g.lockArr(k)
		hL = hL.clone()
		hL[n] = g.define(n, s, fmt.Sprintf("(store %s %s true)", g.heapArr(hL, n, s), mapMu))
	}
	seenL := g.fresh(fr.prefix+"rseen", seenSort)
	if fr.frameActive() {
		_, ffs := fr.frameFormulas(hL)
		for _, f := range ffs {
			fr.assume(f, "frame so far (implicit invariant of the range call)")
		}
	}
	for _, cl := range invs {
		fr.assume(evalInv(cl, hL, seenL), "range invariant "+cl.Src)
	}
	// one iteration
	g.nfresh++
	it := g.fresh(fr.prefix+"range_iter", "Bool")
	k := fr.symbolic("range_k", dom.keyT)
	savedGuard, savedBlock, savedInstr := fr.curGuard, fr.curBlock, fr.curInstr
	bodyGuard := g.define(fr.prefix+"range_body", "Bool", and(savedGuard, it))
	fr.curGuard = bodyGuard
	fr.assume(and(dom.has(hL, k.T), not(fmt.Sprintf("(select %s %s)", seenL, k.T))), "range yields an unseen present key")
	fr.assumeTypeFacts(k, dom.keyT, hL)
	v := fr.wrap(g.define(fr.prefix+"range_v", g.sortOf(dom.valT), dom.val(hL, k.T)), dom.valT)
	fr.assumeTypeFacts(v, dom.valT, hL)
	sub := newFrame(g, fn, g.P.contractFor(fn), fmt.Sprintf("%s%s_r%d$", fr.prefix, sanitize(fn.Name()), g.nfresh), fr.depth+1)
	sub.unitName = fr.unitName
	sub.nOblig = fr.nOblig
	sub.safety = fr.safety
	for i, fv := range fn.FreeVars {
		if i < len(binds) {
			sub.vals[fv] = fr.val(binds[i])
		}
	}
	sub.run([]*Val{k, v}, bodyGuard, hL)
	fr.curBlock, fr.curInstr = savedBlock, savedInstr
	if len(sub.rets) > 0 {
		var guards []string
		var heaps []Heap
		for _, r := range sub.rets {
			guards = append(guards, r.guard)
			heaps = append(heaps, r.heap)
		}
		hB := g.mergeHeaps(guards, heaps)
		fr.curGuard = g.define(fr.prefix+"range_done", "Bool", or(guards...))
		seenB := fmt.Sprintf("(store %s %s true)", seenL, k.T)
		for i, cl := range invs {
			fr.oblig("invariant", "", label(i, cl)+".preserve", evalInv(cl, hB, seenB), cl.Src, c.Pos())
		}
		if fr.frameActive() {
			fr.frameOblig("after one range step", hB, c.Pos())
		}
	}
	fr.curGuard = savedGuard
	// exit
	allSeen := fmt.Sprintf("(forall ((kk %s)) (! (=> %s (select %s kk)) :pattern ((select %s kk))))", ks, dom.has(hL, "kk"), seenL, seenL)
	if alwaysTrue(fn) {
		fr.assume(allSeen, "range call visited every present key")
	} else {
		early := g.fresh(fr.prefix+"range_early", "Bool")
		fr.assume(implies(not(early), allSeen), "range call visited every present key unless the callback stopped it")
	}
	g.rangeCalls++
	if mapMu != "" {
		un := "RUnlock"
		if lockKind == "Lock" {
			un = "Unlock"
		}
		hL = fr.lockOp(un, mapMu, hL)
	}
	return hL, true
}
