package main

// Lock discipline as ghost state. Every sync.Mutex / sync.RWMutex operation updates three ghost
// arrays indexed by the address of the mutex: LOCKW$ (write-held by this thread), LOCKR$ (read-held)
// and LOCKN$ (number of acquisitions made by this thread). Contracts read them with wlocked(mu),
// rlocked(mu) and lockcount(mu). A declaration
//
//	//@ guarded defaultTargetManager.relations by RWMutex
//
// turns every read of the field (and every iteration step over the map it holds) into an obligation
// "the lock is held (read or write)" and every map update / delete through it into "the lock is
// write-held". All sites of a unit are grouped under the obligation <unit>.lock_discipline.
// "One critical section per operation" is then a postcondition: lockcount(mu) == old(lockcount(mu)) + 1.

import (
	"fmt"
	"go/types"
	"strings"

	"golang.org/x/tools/go/ssa"
)

type Guard struct {
	PkgPath string
	Struct  string
	Field   string
	Lock    string
	File    string
	Line    int
}

func (g *Gen) lockArr(kind string) (string, string) {
	name := "LOCK" + kind + "$"
	srt := "(Array Int Bool)"
	if kind == "N" {
		srt = "(Array Int " + g.sortOf(types.Typ[types.Int]) + ")"
	}
	g.heapSort[name] = srt
	return name, srt
}

func lockArrNames(g *Gen) []string {
	var ns []string
	for _, k := range []string{"W", "R", "N"} {
		n, _ := g.lockArr(k)
		ns = append(ns, n)
	}
	return ns
}

// lockOp applies a mutex operation to the ghost state.
func (fr *Frame) lockOp(op string, mu string, h Heap) Heap {
	g := fr.g
	// sync.Mutex / sync.RWMutex are not reentrant: acquiring a lock this thread already holds blocks
	// forever (Lock while read- or write-held; RLock while write-held)
	if fr.curInstr != nil {
		switch op {
		case "Lock":
			fr.oblig("lock", "locks", "lock_discipline", not(fr.lockHeld(mu, h, false)), "Lock of a mutex this thread already holds (self-deadlock)", fr.curInstr.Pos())
		case "RLock":
			fr.oblig("lock", "locks", "lock_discipline", not(fr.lockHeld(mu, h, true)), "RLock of a mutex this thread holds for writing (self-deadlock)", fr.curInstr.Pos())
		}
	}
	nh := h.clone()
	set := func(kind string, val string) {
		n, s := g.lockArr(kind)
		nh[n] = g.define(n, s, fmt.Sprintf("(store %s %s %s)", g.heapArr(h, n, s), mu, val))
	}
	bump := func() {
		n, s := g.lockArr("N")
		cur := g.heapArr(h, n, s)
		nh[n] = g.define(n, s, fmt.Sprintf("(store %s %s %s)", cur, mu, g.iadd(fmt.Sprintf("(select %s %s)", cur, mu), g.ilit(1))))
	}
	switch op {
	case "Lock":
		set("W", "true")
		bump()
	case "Unlock":
		set("W", "false")
	case "RLock":
		set("R", "true")
		bump()
	case "RUnlock":
		set("R", "false")
	}
	return nh
}

func (fr *Frame) lockHeld(mu string, h Heap, write bool) string {
	g := fr.g
	wn, ws := g.lockArr("W")
	w := fmt.Sprintf("(select %s %s)", g.heapArr(h, wn, ws), mu)
	if write {
		return w
	}
	rn, rs := g.lockArr("R")
	return or(w, fmt.Sprintf("(select %s %s)", g.heapArr(h, rn, rs), mu))
}

// guardFor: is the field addressed by fa guarded? Returns the address term of the guarding mutex.
func (fr *Frame) guardFor(fa *ssa.FieldAddr) (string, *Guard) {
	g := fr.g
	gs := g.P.Contracts.Guards
	if len(gs) == 0 {
		return "", nil
	}
	pt, ok := fa.X.Type().Underlying().(*types.Pointer)
	if !ok {
		return "", nil
	}
	named, ok := pt.Elem().(*types.Named)
	if !ok || named.Obj().Pkg() == nil {
		return "", nil
	}
	st, ok := named.Underlying().(*types.Struct)
	if !ok {
		return "", nil
	}
	gd := gs[named.Obj().Pkg().Path()+"::"+named.Obj().Name()+"."+st.Field(fa.Field).Name()]
	if gd == nil {
		return "", nil
	}
	li := -1
	for i := 0; i < st.NumFields(); i++ {
		if st.Field(i).Name() == gd.Lock {
			li = i
		}
	}
	if li < 0 {
		panic(genErr(fmt.Sprintf("%s:%d: guard names unknown lock field %s", gd.File, gd.Line, gd.Lock)))
	}
	base := fr.addrOf(fa.X)
	mu := g.ptrTerm(base.extend(Sel{Field: li, StructT: pt.Elem()}))
	return mu, gd
}

// guardedLoad: obligation at a read of a guarded field; remembers the loaded value for later map writes.
func (fr *Frame) guardedLoad(x *ssa.UnOp, h Heap) {
	fa, ok := x.X.(*ssa.FieldAddr)
	if !ok {
		return
	}
	mu, gd := fr.guardFor(fa)
	if gd == nil {
		return
	}
	if fr.guardOf == nil {
		fr.guardOf = map[ssa.Value]string{}
	}
	fr.guardOf[x] = mu
	fr.oblig("lock", "locks", "lock_discipline", fr.lockHeld(mu, h, false), fmt.Sprintf("%s.%s is read with %s held", gd.Struct, gd.Field, gd.Lock), x.Pos())
}

// guardedUse: map write (write lock) or iteration step (any lock) through a value loaded from a guarded field.
func (fr *Frame) guardedUse(m ssa.Value, h Heap, write bool, what string, in ssa.Instruction) {
	if fr.guardOf == nil {
		return
	}
	mu, ok := fr.guardOf[m]
	if !ok {
		return
	}
	kind := "held"
	if write {
		kind = "write-held"
	}
	fr.oblig("lock", "locks", "lock_discipline", fr.lockHeld(mu, h, write), fmt.Sprintf("%s with the guarding lock %s", what, kind), in.Pos())
}

func isMutexOp(key string) (string, bool) {
	for _, p := range []string{"(*sync.Mutex).", "(*sync.RWMutex)."} {
		if strings.HasPrefix(key, p) {
			op := strings.TrimPrefix(key, p)
			switch op {
			case "Lock", "Unlock", "RLock", "RUnlock":
				return op, true
			}
		}
	}
	return "", false
}
