package main

import (
	"bytes"
	"context"
	"fmt"
	"os"
	"os/exec"
	"path/filepath"
	"regexp"
	"sort"
	"strings"
	"sync"
	"time"
)

type Query struct {
	Unit         string
	Name         string // obligation name
	Group        string
	Kind         string
	Pos          string
	Src          string
	Script       string
	Cover        bool     // expected SAT (vacuity guard)
	GetVals      []string // terms whose values are requested on sat
	ValNames     []string
	Trivial      bool
	Instances    int
	GroundScript string
	Known        bool // obligation listed as a known finding: not escalated beyond the race stage
}

type QResult struct {
	Q         *Query
	Status    string // unsat sat unknown timeout error
	Solver    string
	Secs      float64
	Output    string
	Values    map[string]string
	Attempt   []string
	Candidate bool // Values come from the ground part only
}

// buildQueries turns the generated items into one SMT script per obligation.
func (g *Gen) buildQueries(unit string, getVals, valNames []string) []*Query {
	var qs []*Query
	var head strings.Builder
	head.WriteString("(set-option :produce-models true)\n")
	for _, d := range g.decls {
		head.WriteString(d)
		head.WriteString("\n")
	}
	var ctxSx []*sx
	addCtx := func(f string) {
		if strings.Contains(f, "forall") || strings.Contains(f, "select") || strings.Contains(f, "(sat ") {
			ctxSx = append(ctxSx, parseSexps(f)...)
		}
	}
	for _, d := range g.defs {
		head.WriteString("(assert ")
		head.WriteString(d)
		head.WriteString(")\n")
		addCtx(d)
	}
	nDefs := len(ctxSx)
	if d := g.strLitDistinct(); d != "" {
		head.WriteString("(assert " + d + ")\n")
	}
	prelude := head.String()
	// array constants indexed by the index sort (for the instantiation pass)
	idxArrayAtoms = map[string]bool{}
	for _, d := range g.decls {
		pre := "(declare-const "
		if strings.HasPrefix(d, pre) {
			rest := d[len(pre):]
			if i := strings.Index(rest, " "); i > 0 {
				name, srt := rest[:i], rest[i+1:]
				if strings.HasPrefix(srt, "(Array "+g.IS()+" ") && !isHeapArrayName(name) {
					idxArrayAtoms[name] = true
				}
			}
		}
	}
	var ctx strings.Builder
	for _, it := range g.items {
		if it.Oblig {
			q := &Query{Unit: unit, Name: it.Name, Group: it.Group, Kind: it.Kind, Pos: it.Pos, Src: it.Src, GetVals: getVals, ValNames: valNames}
			if it.Kind == "cover" {
				q.Cover = true
				q.Script = prelude + ctx.String() + fmt.Sprintf("(assert %s)\n(check-sat)\n", and(it.Guard, it.F))
			} else if it.F == "true" || it.Guard == "false" {
				q.Trivial = true
			} else {
				var sb strings.Builder
				sb.WriteString(prelude)
				sb.WriteString(ctx.String())
				hasQ := strings.Contains(it.F, "forall")
				if !hasQ {
					for _, c := range ctxSx {
						if strings.Contains(c.String(), "forall") {
							hasQ = true
							break
						}
					}
				}
				if hasQ {
					ip := &instPass{idxSort: g.IS(), bv: !g.intMode, maxTotal: 4000}
					goal := parseSexps(it.F)[0]
					guard := parseSexps(it.Guard)[0]
					decls, extra, neg := ip.run(ctxSx, nDefs, guard, goal)
					for _, d := range decls {
						sb.WriteString(d + "\n")
					}
					sb.WriteString(fmt.Sprintf("(assert %s)\n(assert %s)\n", it.Guard, neg.String()))
					for _, e := range extra {
						sb.WriteString("(assert " + e.String() + ")\n")
					}
					q.Instances = len(extra)
				} else {
					sb.WriteString(fmt.Sprintf("(assert %s)\n(assert (not %s))\n", it.Guard, it.F))
				}
				sb.WriteString("(check-sat)\n")
				if len(getVals) > 0 {
					sb.WriteString("(get-value (" + strings.Join(getVals, " ") + "))\n")
				}
				q.Script = sb.String()
				if hasQ {
					var gs strings.Builder
					for _, line := range strings.Split(q.Script, "\n") {
						if strings.HasPrefix(line, "(assert ") && strings.Contains(line, "(forall ") {
							continue
						}
						gs.WriteString(line)
						gs.WriteString("\n")
					}
					q.GroundScript = gs.String()
				}
			}
			if len(q.Script) > g.vcBytes {
				g.vcBytes = len(q.Script)
			}
			qs = append(qs, q)
			if it.Kind == "cover" {
				continue
			}
		}
		// once checked (or assumed) the fact is available to what follows. Postconditions and
		// invariant obligations sit at the end of a path (nothing of that path follows them), so
		// they are not added: it keeps later queries small and stable.
		if it.Oblig && (it.Kind == "ensures" || it.Kind == "invariant" || it.Kind == "lemma" || it.Kind == "frame") {
			continue
		}
		if it.F != "true" {
			f := implies(it.Guard, it.F)
			ctx.WriteString(fmt.Sprintf("(assert %s)\n", f))
			addCtx(f)
		}
	}
	return qs
}

type solverSpec struct {
	name string
	args func(file string, secs int) []string
	pre  string
}

var solvers = []solverSpec{
	{"z3-5.1.0", func(f string, s int) []string { return []string{"z3-new", fmt.Sprintf("-T:%d", s), f} }, ""},
	{"z3-4.8.12", func(f string, s int) []string { return []string{"z3", fmt.Sprintf("-T:%d", s), f} }, ""},
	{"cvc5-1.0.3", func(f string, s int) []string {
		return []string{"cvc5", fmt.Sprintf("--tlimit=%d", s*1000), "--lang=smt2", "--full-saturate-quant", f}
	}, "(set-logic ALL)\n"},
}

func seededZ3(seed int) solverSpec {
	return solverSpec{fmt.Sprintf("z3-5.1.0/seed%d", seed), func(f string, s int) []string {
		return []string{"z3-new", fmt.Sprintf("-T:%d", s), fmt.Sprintf("smt.random_seed=%d", seed), fmt.Sprintf("sat.random_seed=%d", seed), f}
	}, ""}
}

func runSolver(ctx context.Context, sp solverSpec, dir string, id int, script string, secs int) (string, string, float64) {
	file := filepath.Join(dir, fmt.Sprintf("q%d_%s.smt2", id, sanitize(sp.name)))
	text := script
	if sp.pre != "" {
		// cvc5 wants produce-models before set-logic
		text = strings.Replace(script, "(set-option :produce-models true)\n", "(set-option :produce-models true)\n"+sp.pre, 1)
	}
	if err := os.WriteFile(file, []byte(text), 0644); err != nil {
		return "error", err.Error(), 0
	}
	defer os.Remove(file)
	a := sp.args(file, secs)
	cctx, cancel := context.WithTimeout(ctx, time.Duration(secs+2)*time.Second)
	defer cancel()
	cmd := exec.CommandContext(cctx, a[0], a[1:]...)
	var out bytes.Buffer
	cmd.Stdout = &out
	cmd.Stderr = &out
	t0 := time.Now()
	cmd.Run()
	el := time.Since(t0).Seconds()
	o := out.String()
	for strings.HasPrefix(o, "WARNING") {
		// solver warnings precede the answer
		i := strings.Index(o, "\n")
		if i < 0 {
			break
		}
		o = o[i+1:]
	}
	first := strings.TrimSpace(strings.SplitN(o, "\n", 2)[0])
	switch first {
	case "unsat", "sat", "unknown":
		return first, o, el
	case "timeout":
		return "timeout", o, el
	}
	if cctx.Err() != nil {
		return "timeout", o, el
	}
	if strings.Contains(o, "timeout") || strings.Contains(o, "interrupted") {
		return "timeout", o, el
	}
	return "error", o, el
}

// solveAll: stage 1 runs every query on z3 5.1 alone (short timeout, wide parallelism); stage 2
// races the three solvers on what is left; stage 3 retries the remaining ones with four times the
// timeout and little parallelism, so that machine load does not turn into spurious "undecided".
func solveAll(qs []*Query, timeout int, par int) []*QResult {
	dir, err := os.MkdirTemp(scratchRoot(), "govc-q-")
	if err != nil {
		panic(err)
	}
	defer os.RemoveAll(dir)
	results := make([]*QResult, len(qs))
	runStage := func(idx []int, par int, f func(i int) *QResult) {
		var wg sync.WaitGroup
		sem := make(chan struct{}, par)
		for _, i := range idx {
			wg.Add(1)
			sem <- struct{}{}
			go func(i int) {
				defer wg.Done()
				defer func() { <-sem }()
				results[i] = f(i)
			}(i)
		}
		wg.Wait()
	}
	var all []int
	for i := range qs {
		all = append(all, i)
	}
	runStage(all, par, func(i int) *QResult { return solveFast(dir, i, qs[i]) })
	var rest []int
	for i, r := range results {
		if !decided(r) {
			rest = append(rest, i)
		}
	}
	p2 := par / 3
	if p2 < 1 {
		p2 = 1
	}
	runStage(rest, p2, func(i int) *QResult { return solveRace(dir, i, qs[i], timeout, results[i]) })
	var rest2 []int
	for _, i := range rest {
		if !decided(results[i]) && !qs[i].Known {
			rest2 = append(rest2, i)
		}
	}
	runStage(rest2, 3, func(i int) *QResult { return solveRace(dir, i, qs[i], 4*timeout, results[i]) })
	// last resort, one at a time: wall-clock timeouts under a loaded machine must not turn a provable
	// obligation into "undecided" (which the check reports as a violation)
	var rest3 []int
	for _, i := range rest2 {
		if !decided(results[i]) {
			rest3 = append(rest3, i)
		}
	}
	if len(rest3) <= 4 {
		runStage(rest3, 1, func(i int) *QResult { return solveRace(dir, i, qs[i], 8*timeout, results[i]) })
	}
	for _, i := range rest2 {
		if !decided(results[i]) {
			groundCandidate(dir, i, qs[i], results[i])
		}
	}
	// counterexamples: prefer small inputs (replay drivers rebuild inputs from the first elements)
	var sats []int
	for i, r := range results {
		if r.Status == "sat" && !r.Q.Cover {
			sats = append(sats, i)
		}
	}
	runStage(sats, par, func(i int) *QResult { return smallModel(dir, i, qs[i], results[i]) })
	return results
}

func decided(r *QResult) bool {
	if r.Q.Cover {
		return true
	}
	if r.Status == "sat" && !r.Q.Known && (strings.Contains(r.Q.Script, "(forall ") || strings.Contains(r.Q.Script, "(exists ")) {
		// a model claimed for a quantified script is tentative: the refuting solvers get the longer
		// stages too; if nobody refutes, the "sat" stands
		return false
	}
	return r.Status == "sat" || r.Status == "unsat"
}

func solveFast(dir string, id int, q *Query) *QResult {
	r := &QResult{Q: q}
	if q.Trivial {
		r.Status, r.Solver = "unsat", "syntactic"
		return r
	}
	st, out, el := runSolver(context.Background(), solvers[0], dir, id, q.Script, 3)
	r.Attempt = append(r.Attempt, fmt.Sprintf("%s:%s:%.2fs", solvers[0].name, st, el))
	r.Status, r.Solver, r.Secs, r.Output = st, solvers[0].name, el, out
	if st == "sat" {
		r.Values = parseValues(out, q)
	}
	return r
}

func solveRace(dir string, id int, q *Query, timeout int, prev *QResult) *QResult {
	r := &QResult{Q: q, Attempt: prev.Attempt}
	ctx, cancel := context.WithCancel(context.Background())
	defer cancel()
	type res struct {
		st, out, name string
		el            float64
	}
	racers := solvers
	if timeout >= 40 {
		// escalation stages: quantifier instantiation is sensitive to term order; differently seeded
		// runs of the same solver often decide what the default run does not
		racers = append(append([]solverSpec{}, solvers...), seededZ3(7), seededZ3(42))
	}
	ch := make(chan res, len(racers))
	for _, sp := range racers {
		sp := sp
		go func() {
			st, out, el := runSolver(ctx, sp, dir, id, q.Script, timeout)
			ch <- res{st, out, sp.name, el}
		}()
	}
	best := res{st: "unknown"}
	var total float64
	// A model claimed for a script with quantifiers cannot be checked by the solver itself (MBQI), a
	// refutation can (finitely many instances): z3 4.8.12 answered "sat" where cvc5 and z3 5.1 refute.
	// So "sat" on a quantified script does not end the race; a later "unsat" wins and the disagreement
	// is recorded.
	quantified := strings.Contains(q.Script, "(forall ") || strings.Contains(q.Script, "(exists ")
	var satRes *res
	for i := 0; i < len(racers); i++ {
		x := <-ch
		r.Attempt = append(r.Attempt, fmt.Sprintf("%s:%s:%.2fs", x.name, x.st, x.el))
		if x.el > total {
			total = x.el
		}
		if x.st == "sat" && quantified && !q.Cover {
			if satRes == nil {
				y := x
				satRes = &y
			}
			continue
		}
		if x.st == "sat" || x.st == "unsat" {
			best = x
			if satRes != nil && x.st == "unsat" {
				r.Attempt = append(r.Attempt, "disagreement:"+satRes.name+"=sat,"+x.name+"=unsat(refutation preferred)")
			}
			cancel()
			break
		}
		if best.st == "unknown" && x.st == "timeout" {
			best = x
		}
		if x.st == "error" && best.out == "" {
			best.out = x.out
		}
	}
	if best.st != "unsat" && best.st != "sat" && satRes != nil {
		best = *satRes
	}
	if best.st != "unsat" && best.st != "sat" && prev != nil && prev.Status == "sat" {
		// keep the tentative model of an earlier stage
		r.Status, r.Solver, r.Secs, r.Output, r.Values = prev.Status, prev.Solver, prev.Secs+total, prev.Output, prev.Values
		return r
	}
	r.Status, r.Solver, r.Secs, r.Output = best.st, best.name, best.el+prev.Secs, best.out
	if r.Status == "error" {
		r.Status = "unknown"
	}
	if best.st == "sat" {
		r.Values = parseValues(best.out, q)
	}
	if best.el == 0 {
		r.Secs = total + prev.Secs
	}
	return r
}

// smallModel re-solves a satisfiable query with every reported length bounded by 24; when that is
// still satisfiable its model replaces the original one.
func smallModel(dir string, id int, q *Query, r *QResult) *QResult {
	var bounds []string
	for k, n := range q.ValNames {
		if strings.HasPrefix(n, "len(") && k < len(q.GetVals) {
			t := q.GetVals[k]
			if strings.Contains(q.Script, "(_ BitVec 64)") && !strings.Contains(q.Script, "(declare-fun slen (Str) Int)") {
				bounds = append(bounds, fmt.Sprintf("(assert (bvule %s #x0000000000000018))", t))
			} else {
				bounds = append(bounds, fmt.Sprintf("(assert (<= %s 24))", t))
			}
		}
	}
	if len(bounds) == 0 {
		return r
	}
	script := strings.Replace(q.Script, "(check-sat)", strings.Join(bounds, "\n")+"\n(check-sat)", 1)
	sp := solvers[0]
	for _, x := range solvers {
		if x.name == r.Solver {
			sp = x
		}
	}
	st, out, _ := runSolver(context.Background(), sp, dir, 500000+id, script, 10)
	if st == "sat" {
		r.Values = parseValues(out, q)
		r.Output = out
		r.Attempt = append(r.Attempt, "small-model:sat")
	}
	return r
}

// groundCandidate: no verdict on the quantified query: look for a candidate counterexample in its
// ground part. Such a model may violate the dropped quantified facts; it is only believed after replay.
func groundCandidate(dir string, id int, q *Query, r *QResult) {
	if q.GroundScript == "" {
		return
	}
	st, out, el := runSolver(context.Background(), solvers[0], dir, id, q.GroundScript, 5)
	r.Attempt = append(r.Attempt, fmt.Sprintf("ground-part:%s:%s:%.2fs", solvers[0].name, st, el))
	if st == "sat" {
		r.Values = parseValues(out, q)
		r.Candidate = true
		r.Output += "\n-- candidate model of the ground part --\n" + out
	}
}

func scratchRoot() string {
	if d := os.Getenv("VERIF_SCRATCH"); d != "" {
		return d
	}
	return "/var/tmp"
}

var valRe = regexp.MustCompile(`\(\s*([^\s()]+|\([^()]*(?:\([^()]*\)[^()]*)*\))\s+(#x[0-9a-fA-F]+|#b[01]+|true|false|\(- \d+\)|-?\d+|[^\s()]+|\([^()]*(?:\([^()]*\)[^()]*)*\))\s*\)`)

// parseValues reads the (get-value ...) answer: pairs in the order requested.
func parseValues(out string, q *Query) map[string]string {
	vals := map[string]string{}
	i := strings.Index(out, "\n")
	if i < 0 {
		return vals
	}
	body := strings.TrimSpace(out[i+1:])
	if !strings.HasPrefix(body, "(") {
		return vals
	}
	// split top-level pairs
	depth := 0
	start := -1
	var pairs []string
	for j, c := range body {
		switch c {
		case '(':
			depth++
			if depth == 2 {
				start = j
			}
		case ')':
			if depth == 2 && start >= 0 {
				pairs = append(pairs, body[start:j+1])
				start = -1
			}
			depth--
		}
	}
	for k, p := range pairs {
		if k >= len(q.ValNames) {
			break
		}
		// value = text after the term; the term is q.GetVals[k]
		inner := strings.TrimSpace(p[1 : len(p)-1])
		term := q.GetVals[k]
		v := inner
		if strings.HasPrefix(inner, term) {
			v = strings.TrimSpace(inner[len(term):])
		} else {
			// solvers may reprint the term; take the last atom / s-expression
			v = lastSexp(inner)
		}
		vals[q.ValNames[k]] = v
	}
	return vals
}

func lastSexp(s string) string {
	s = strings.TrimSpace(s)
	if s == "" {
		return s
	}
	if s[len(s)-1] != ')' {
		i := strings.LastIndexAny(s, " \t\n")
		return s[i+1:]
	}
	depth := 0
	for i := len(s) - 1; i >= 0; i-- {
		switch s[i] {
		case ')':
			depth++
		case '(':
			depth--
			if depth == 0 {
				return s[i:]
			}
		}
	}
	return s
}

// summarise groups query results by obligation name.
type ObligResult struct {
	Name       string
	Group      string
	Kind       string
	Status     string // discharged | failed | undecided | vacuous
	Solver     string
	Secs       float64
	Sites      int
	Failing    *QResult
	AllFailing []*QResult
	Pos        string
	Src        string
}

func summarise(rs []*QResult) []*ObligResult {
	byName := map[string]*ObligResult{}
	var order []string
	for _, r := range rs {
		name := r.Q.Name
		if r.Q.Group == "safety" {
			name = r.Q.Unit + ".safety"
		}
		if r.Q.Group == "nopanic" {
			name = r.Q.Unit + ".nopanic"
		}
		if r.Q.Group == "locks" {
			name = r.Q.Unit + ".lock_discipline"
		}
		if r.Q.Group == "frame" {
			name = r.Q.Unit + ".frame"
		}
		o := byName[name]
		if o == nil {
			o = &ObligResult{Name: name, Group: r.Q.Group, Kind: r.Q.Kind, Status: "discharged", Pos: r.Q.Pos, Src: r.Q.Src}
			byName[name] = o
			order = append(order, name)
		}
		o.Sites++
		o.Secs += r.Secs
		if r.Solver != "" && r.Solver != "syntactic" {
			o.Solver = r.Solver
		} else if o.Solver == "" {
			o.Solver = r.Solver
		}
		ok := r.Status == "unsat"
		if r.Q.Cover {
			ok = r.Status == "sat" || r.Status == "unknown" || r.Status == "timeout"
			// a cover query that is unsat means the contract is vacuous
		}
		if !ok {
			o.AllFailing = append(o.AllFailing, r)
		}
		if !ok && o.Failing == nil {
			o.Failing = r
			o.Pos, o.Src = r.Q.Pos, r.Q.Src
			switch {
			case r.Q.Cover:
				o.Status = "vacuous"
			case r.Status == "sat":
				o.Status = "failed"
			default:
				o.Status = "undecided"
			}
		}
	}
	sort.Strings(order)
	var out []*ObligResult
	for _, n := range order {
		out = append(out, byName[n])
	}
	return out
}
