package main

// Rely/guarantee layer for shared words (DESIGN.md 2.9): a function that declares
// `protocol P at <instance>` is verified thread-modularly. Before every atomic operation on the
// protected field, and before every call-site assertion, the environment may have acted: the
// field and the protocol's ghost cells of that instance are havocked subject to Rely and Inv.
// After the operation (and its ghost updates, `at atomic K ghost g = e`) the step must satisfy
// Guar and re-establish Inv. `me` is the symbolic id of the executing thread, `child` the id of
// the goroutine started by a following go statement.

import (
	"fmt"
	"go/types"
	"sort"
	"strings"

	"golang.org/x/tools/go/ssa"
)

type protoInst struct {
	pr      *Protocol
	inst    *SVal
	structT types.Type
	field   int
	ghosts  []*GhostHeap
}

func (g *Gen) tid(name string) string {
	n := "tid$" + name
	if !g.declSet["const:"+n] {
		srt := g.sortOf(types.Typ[types.Int])
		g.decl("const:"+n, fmt.Sprintf("(declare-const %s %s)", n, srt))
		if g.intMode {
			g.defs = append(g.defs, fmt.Sprintf("(> %s 0)", n))
		} else {
			g.defs = append(g.defs, fmt.Sprintf("(bvsgt %s %s)", n, bvInt(0, 64)))
		}
		if name == "child" {
			g.defs = append(g.defs, fmt.Sprintf("(not (= %s %s))", n, g.tid("me")))
		}
	}
	return n
}

// protoInsts resolves the protocol uses of the function's contract (once).
func (fr *Frame) protoInsts(h Heap) []*protoInst {
	if fr.protos != nil || fr.fc == nil || len(fr.fc.Protocols) == 0 {
		return fr.protos
	}
	g := fr.g
	for _, pu := range fr.fc.Protocols {
		pr := g.P.Contracts.Protocols[pu.Name]
		if pr == nil {
			panic(genErr("unknown protocol " + pu.Name))
		}
		env := fr.newSpecEnv(h, fr.entry)
		fr.bindParams(env)
		env.where = "protocol " + pu.Name
		if at := fr.curInstr; at != nil {
			env.locals = func(name string) *SVal {
				if _, isParam := env.vars[name]; isParam {
					return nil
				}
				return fr.localBefore(name, at, h)
			}
		}
		v := env.tr(pu.Inst)
		pt, ok := v.T.Underlying().(*types.Pointer)
		if !ok {
			panic(genErr("protocol instance must be a pointer"))
		}
		st, ok := pt.Elem().Underlying().(*types.Struct)
		if !ok {
			panic(genErr("protocol instance must point to a struct"))
		}
		fi := -1
		for i := 0; i < st.NumFields(); i++ {
			if st.Field(i).Name() == pr.Field {
				fi = i
			}
		}
		if fi < 0 {
			panic(genErr("protocol field " + pr.Field + " not found"))
		}
		pi := &protoInst{pr: pr, inst: v, structT: pt.Elem(), field: fi}
		for _, gn := range pr.Ghosts {
			gh := g.P.Contracts.Ghosts[gn]
			if gh == nil {
				panic(genErr("unknown ghost heap " + gn))
			}
			pi.ghosts = append(pi.ghosts, gh)
		}
		fr.protos = append(fr.protos, pi)
	}
	return fr.protos
}

func (fr *Frame) bindParams(env *SEnv) {
	for _, prm := range fr.fn.Params {
		if v, ok := fr.vals[prm]; ok {
			env.vars[prm.Name()] = &SVal{V: v, T: prm.Type()}
		}
	}
	for _, fv := range fr.fn.FreeVars {
		if v, ok := fr.vals[fv]; ok {
			env.vars[fv.Name()] = freeVarSVal(v, fv.Type())
		}
	}
}

// freeVarSVal: variables captured by reference are cells; contracts name the variable, so the
// binding dereferences the cell in whatever heap the expression is evaluated.
func freeVarSVal(v *Val, t types.Type) *SVal {
	if pt, ok := t.Underlying().(*types.Pointer); ok {
		return &SVal{V: v, T: t, CellOf: pt.Elem()}
	}
	return &SVal{V: v, T: t}
}

func (pi *protoInst) instTerm(g *Gen) string {
	if pi.inst.V.T != "" {
		return pi.inst.V.T
	}
	return g.ptrTerm(pi.inst.V.A)
}

// protoState reads (field, ghosts...) of the instance in heap h.
func (fr *Frame) protoState(pi *protoInst, h Heap) []*SVal {
	g := fr.g
	a := pi.inst.V.A
	if a == nil {
		a = &Addr{Base: pi.inst.V.T, T: pi.structT}
	}
	fa := a.extend(Sel{Field: pi.field, StructT: pi.structT})
	ft := fa.finalType()
	out := []*SVal{{V: &Val{T: g.load(h, fa)}, T: ft}}
	env := fr.newSpecEnv(h, fr.entry)
	for _, gh := range pi.ghosts {
		name, srt, _, rt := env.ghostName(gh)
		t := fmt.Sprintf("(select %s %s)", g.heapArr(h, name, srt), pi.instTerm(g))
		out = append(out, &SVal{V: fr.wrap(t, rt), T: rt})
	}
	return out
}

func (fr *Frame) callSpecBool(name string, h Heap, args []*SVal) string {
	env := fr.newSpecEnv(h, fr.entry)
	env.where = "protocol predicate " + name
	call := &SX{Op: "call", Args: []*SX{{Op: "id", Tok: name}}}
	for i, a := range args {
		n := fmt.Sprintf("rg_arg%d", i)
		env.vars[n] = a
		call.Args = append(call.Args, &SX{Op: "id", Tok: n})
	}
	return env.boolTerm(call)
}

func (fr *Frame) meVal() *SVal {
	return &SVal{V: &Val{T: fr.g.tid("me")}, T: types.Typ[types.Int]}
}

// envStep: other threads act on every protocol instance of this function.
func (fr *Frame) envStep(h Heap) Heap {
	g := fr.g
	for _, pi := range fr.protoInsts(h) {
		pre := fr.protoState(pi, h)
		a := pi.inst.V.A
		if a == nil {
			a = &Addr{Base: pi.inst.V.T, T: pi.structT}
		}
		fa := a.extend(Sel{Field: pi.field, StructT: pi.structT})
		nh := g.store(h, fa, g.fresh("env$"+pi.pr.Field, g.sortOf(fa.finalType())))
		env := fr.newSpecEnv(h, fr.entry)
		for _, gh := range pi.ghosts {
			name, srt, _, rt := env.ghostName(gh)
			cur := g.heapArr(nh, name, srt)
			nh2 := nh.clone()
			nh2[name] = g.define(name, srt, fmt.Sprintf("(store %s %s %s)", cur, pi.instTerm(g), g.fresh("env$"+gh.Name, g.sortOf(rt))))
			nh = nh2
		}
		post := fr.protoState(pi, nh)
		args := append([]*SVal{fr.meVal()}, append(pre, post...)...)
		fr.assume(fr.callSpecBool(pi.pr.Rely, nh, args), "rely of protocol "+pi.pr.Name)
		fr.assume(fr.callSpecBool(pi.pr.Inv, nh, post), "invariant of protocol "+pi.pr.Name)
		h = nh
	}
	return h
}

// protoFor: is address a the protected field of one of this function's protocol instances?
func (fr *Frame) protoFor(a *Addr, h Heap) *protoInst {
	if a == nil || a.Kind != 0 || len(a.Sels) != 1 || a.Sels[0].ArrT != nil {
		return nil
	}
	for _, pi := range fr.protoInsts(h) {
		if !types.Identical(a.T, pi.structT) || a.Sels[0].Field != pi.field {
			continue
		}
		return pi // same struct type and field; the instance is checked by an obligation
	}
	return nil
}

// atomicOrdinal numbers the atomic operations on protected fields in source order.
func (fr *Frame) atomicOrdinal(c *ssa.CallCommon) int {
	if fr.atomicOrd == nil {
		fr.atomicOrd = map[*ssa.CallCommon]int{}
		var list []*ssa.CallCommon
		names := map[string]bool{}
		if fr.fc != nil {
			for _, pu := range fr.fc.Protocols {
				if pr := fr.g.P.Contracts.Protocols[pu.Name]; pr != nil {
					names[pr.Field] = true
				}
			}
		}
		for _, b := range fr.fn.Blocks {
			for _, in := range b.Instrs {
				ci, ok := in.(ssa.CallInstruction)
				if !ok {
					continue
				}
				cc := ci.Common()
				callee := cc.StaticCallee()
				if callee == nil || !strings.HasPrefix(callee.String(), "sync/atomic.") || len(cc.Args) == 0 {
					continue
				}
				fa, ok := cc.Args[0].(*ssa.FieldAddr)
				if !ok {
					continue
				}
				st := fa.X.Type().Underlying().(*types.Pointer).Elem().Underlying().(*types.Struct)
				if names[st.Field(fa.Field).Name()] {
					list = append(list, cc)
				}
			}
		}
		sort.Slice(list, func(i, j int) bool { return list[i].Pos() < list[j].Pos() })
		for i, cc := range list {
			fr.atomicOrd[cc] = i + 1
		}
	}
	return fr.atomicOrd[c]
}

// afterAtomic applies the ghost updates of atomic operation #k and emits the guarantee and
// invariant obligations of the step pre -> post.
func (fr *Frame) afterAtomic(pi *protoInst, k int, pre []*SVal, nh Heap, result *SVal, c *ssa.CallCommon) Heap {
	return fr.afterAtomicNamed(pi, k, fmt.Sprintf("atomic%d", k), pre, nh, result, c)
}

func (fr *Frame) afterAtomicNamed(pi *protoInst, k int, label string, pre []*SVal, nh Heap, result *SVal, c *ssa.CallCommon) Heap {
	g := fr.g
	if fr.fc != nil {
		// all ghost updates of one atomic step read the same pre-update state
		base := nh
		for _, gu := range fr.fc.AtAtomic[k] {
			var gh *GhostHeap
			for _, x := range pi.ghosts {
				if x.Name == gu.Ghost {
					gh = x
				}
			}
			if gh == nil {
				// not a protocol ghost: a thread-local ghost cell keyed by the instance (never touched by the
				// environment step)
				gh = g.P.Contracts.Ghosts[gu.Ghost]
				if gh == nil || len(gh.Params) != 1 {
					panic(genErr(fmt.Sprintf("at atomic %d: %s is neither a ghost of protocol %s nor a ghost heap keyed by the instance", k, gu.Ghost, pi.pr.Name)))
				}
			}
			env := fr.newSpecEnv(base, fr.entry)
			fr.bindParams(env)
			env.where = fmt.Sprintf("at atomic %d ghost %s", k, gu.Ghost)
			if at := fr.curInstr; at != nil {
				hh := base
				env.locals = func(name string) *SVal {
					if _, isParam := env.vars[name]; isParam {
						return nil
					}
					return fr.localBefore(name, at, hh)
				}
			}
			if result != nil {
				env.bindResult(result.V, result.T)
			}
			name, srt, _, rt := env.ghostName(gh)
			v := env.coerceTo(env.tr(gu.Expr), rt)
			cur := g.heapArr(nh, name, srt)
			nh2 := nh.clone()
			nh2[name] = g.define(name, srt, fmt.Sprintf("(store %s %s %s)", cur, pi.instTerm(g), v.V.T))
			nh = nh2
		}
	}
	post := fr.protoState(pi, nh)
	args := append([]*SVal{fr.meVal()}, append(pre, post...)...)
	fr.oblig("guarantee", "", label+".guarantee", fr.callSpecBool(pi.pr.Guar, nh, args), "the step is one the protocol "+pi.pr.Name+" allows this thread", c.Pos())
	fr.oblig("invariant", "", label+".invariant", fr.callSpecBool(pi.pr.Inv, nh, post), "the step keeps the invariant of protocol "+pi.pr.Name, c.Pos())
	return nh
}

// goStmt: the goroutine started here begins with the callee's preconditions, evaluated with the
// new thread's id (child) as `me`.
func (fr *Frame) goStmt(x *ssa.Go, h Heap) {
	if !fr.top {
		return
	}
	g := fr.g
	c := x.Common()
	// ghost hand-over performed by starting the goroutine: a protocol step of this thread
	if fr.fc != nil && len(fr.fc.AtAtomic[-1]) > 0 {
		h = fr.envStep(h)
		for _, pi := range fr.protoInsts(h) {
			pre := fr.protoState(pi, h)
			h = fr.afterAtomicNamed(pi, -1, "go", pre, h, nil, c)
		}
	}
	callee := c.StaticCallee()
	if callee == nil {
		return
	}
	fc := g.P.contractFor(callee)
	if fc == nil || len(fc.Requires) == 0 {
		return
	}
	env := fr.newSpecEnv(h, h)
	for i, prm := range callee.Params {
		if i < len(c.Args) {
			env.vars[prm.Name()] = &SVal{V: fr.val(c.Args[i]), T: prm.Type()}
		}
	}
	if mc, ok := c.Value.(*ssa.MakeClosure); ok {
		for i, fv := range callee.FreeVars {
			env.vars[fv.Name()] = freeVarSVal(fr.val(mc.Bindings[i]), fv.Type())
		}
	}
	// in the callee `me` is the new thread
	env.vars["me"] = &SVal{V: &Val{T: g.tid("child")}, T: types.Typ[types.Int]}
	for i, rq := range fc.Requires {
		env.where = fmt.Sprintf("%s:%d", rq.File, rq.Line)
		label := rq.Label
		if label == "" {
			label = fmt.Sprintf("requires%d", i+1)
		}
		fr.oblig("precondition", "", "go."+shortName(fc.Name)+"."+label, env.boolTerm(rq.Expr), rq.Src, x.Pos())
	}
}

// protocolFrame: every function of the package that writes the protected field (atomic
// Store/Swap/CompareAndSwap/Add or a plain store) must be verified under the protocol, or be
// listed as exempt. Returns the offending function names.
func (p *Program) protocolFrame(pr *Protocol) (writers []string, missing []string) {
	sp := p.Pkgs[pr.PkgPath]
	if sp == nil {
		return nil, []string{"package " + pr.PkgPath + " not loaded"}
	}
	isField := func(v ssa.Value) bool {
		fa, ok := v.(*ssa.FieldAddr)
		if !ok {
			return false
		}
		pt, ok := fa.X.Type().Underlying().(*types.Pointer)
		if !ok {
			return false
		}
		n, ok := pt.Elem().(*types.Named)
		if !ok || n.Obj().Name() != pr.Struct {
			return false
		}
		return n.Underlying().(*types.Struct).Field(fa.Field).Name() == pr.Field
	}
	seen := map[string]bool{}
	for fn := range ssautilAllFunctions(p) {
		pkgPath, rel, _ := funcKeyNames(fn)
		if pkgPath != pr.PkgPath || fn.Origin() != nil {
			continue
		}
		writes := false
		for _, b := range fn.Blocks {
			for _, in := range b.Instrs {
				switch x := in.(type) {
				case *ssa.Store:
					if isField(x.Addr) {
						writes = true
					}
				case ssa.CallInstruction:
					cc := x.Common()
					callee := cc.StaticCallee()
					if callee == nil || !strings.HasPrefix(callee.String(), "sync/atomic.") || len(cc.Args) == 0 {
						continue
					}
					if strings.HasPrefix(callee.Name(), "Load") {
						continue
					}
					if isField(cc.Args[0]) {
						writes = true
					}
				}
			}
		}
		if !writes || seen[rel] {
			continue
		}
		seen[rel] = true
		writers = append(writers, rel)
		fc := p.contractFor(fn)
		under := false
		if fc != nil {
			for _, pu := range fc.Protocols {
				if pu.Name == pr.Name {
					under = true
				}
			}
		}
		exempt := false
		for _, e := range pr.Exempt {
			if e == rel || "(*"+pr.Struct+")."+e == rel {
				exempt = true
			}
		}
		if !under && !exempt {
			missing = append(missing, rel)
		}
	}
	sort.Strings(writers)
	sort.Strings(missing)
	return
}
