package main

import (
	"encoding/json"
	"os"
	"path/filepath"
)

type Coverage struct {
	Obligations   int                      `json:"obligations"`
	Discharged    int                      `json:"discharged"`
	CheckerCmd    string                   `json:"checker_cmd"`
	TrustedBase   []string                 `json:"trusted_base"`
	Samples       []map[string]interface{} `json:"samples"`
	Functions     []map[string]interface{} `json:"functions_under_contract"`
	ByBackend     map[string]int           `json:"discharged_by_backend"`
	SolverTimeS   map[string]float64       `json:"solver_time_s"`
	Queries       int                      `json:"smt_queries"`
	VCBytesMax    int                      `json:"vc_bytes_max"`
	CoversChecked int                      `json:"covers_checked"`
	Canaries      int                      `json:"canaries_failed_as_expected"`
	KnownFindings []string                 `json:"known_findings_reported"`
	LedgerSize    int                      `json:"ledger_obligations"`
	CrossChecked  int                      `json:"cross_checked_on_second_solver"`
	CrossDisagree []string                 `json:"cross_check_disagreements"`
	ContractScan  []string                 `json:"contract_scan_unchecked_constructs"`
	Bounded       []map[string]interface{} `json:"bounded_stand_ins,omitempty"`
	Notes         []string                 `json:"notes,omitempty"`
	Explanation   string                   `json:"explanation,omitempty"`
}

type Evidence struct {
	PropertyID  string   `json:"property_id"`
	Tier        string   `json:"tier"`
	Seed        int      `json:"seed"`
	Level       string   `json:"level"`
	Coverage    Coverage `json:"coverage"`
	Assumptions []string `json:"assumptions"`
	WallS       float64  `json:"wall_s"`
	Violations  int      `json:"violations"`
}

func (e *Evidence) addAssumption(s string) {
	for _, a := range e.Assumptions {
		if a == s {
			return
		}
	}
	e.Assumptions = append(e.Assumptions, s)
}

func (e *Evidence) write(path string) error {
	if e.Coverage.Samples == nil {
		e.Coverage.Samples = []map[string]interface{}{}
	}
	if e.Assumptions == nil {
		e.Assumptions = []string{}
	}
	os.MkdirAll(filepath.Dir(path), 0755)
	b, err := json.MarshalIndent(e, "", " ")
	if err != nil {
		return err
	}
	return os.WriteFile(path, append(b, '\n'), 0644)
}
