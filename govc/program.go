package main

import (
	"fmt"
	"go/token"
	"go/types"
	"os"
	"path"
	"sort"
	"strings"

	"golang.org/x/tools/go/packages"
	"golang.org/x/tools/go/ssa"
	"golang.org/x/tools/go/ssa/ssautil"
)

type Program struct {
	Root       string
	ModPath    string
	Fset       *token.FileSet
	Prog       *ssa.Program
	Pkgs       map[string]*ssa.Package // by import path (module packages requested)
	AllPkgs    []*ssa.Package
	Contracts  *Contracts
	globals    map[*ssa.Global]int
	storedTo   map[*ssa.Global]bool // written outside package initialisers
	funcIDs    map[*ssa.Function]int
	funcIndex  map[string]*ssa.Function
	typesPkgs  map[string]*types.Package
	qualIndex  map[string]*FuncContract
	EdgeCovers bool
	CurPkgPath string // package of the unit being generated
}

func loadProgram(root, modPath string, pkgPaths []string, tags string) (*Program, error) {
	cfg := &packages.Config{Mode: packages.LoadAllSyntax, Dir: root, BuildFlags: []string{"-tags=" + tags}, Env: append(os.Environ(), "GOFLAGS=-mod=mod", "GOPROXY=off", "GOSUMDB=off", "GOTOOLCHAIN=local")}
	pkgs, err := packages.Load(cfg, pkgPaths...)
	if err != nil {
		return nil, err
	}
	var errs []string
	packages.Visit(pkgs, nil, func(p *packages.Package) {
		for _, e := range p.Errors {
			errs = append(errs, e.Error())
		}
	})
	if len(errs) > 0 {
		return nil, fmt.Errorf("package errors: %s", strings.Join(errs, "; "))
	}
	prog, spkgs := ssautil.AllPackages(pkgs, ssa.GlobalDebug|ssa.InstantiateGenerics)
	prog.Build()
	p := &Program{Root: root, ModPath: modPath, Prog: prog, Pkgs: map[string]*ssa.Package{}, globals: map[*ssa.Global]int{}, storedTo: map[*ssa.Global]bool{},
		funcIDs: map[*ssa.Function]int{}, funcIndex: map[string]*ssa.Function{}, typesPkgs: map[string]*types.Package{}}
	if len(pkgs) > 0 {
		p.Fset = pkgs[0].Fset
	}
	for _, sp := range spkgs {
		if sp != nil {
			p.Pkgs[sp.Pkg.Path()] = sp
		}
	}
	p.AllPkgs = prog.AllPackages()
	sort.Slice(p.AllPkgs, func(i, j int) bool { return p.AllPkgs[i].Pkg.Path() < p.AllPkgs[j].Pkg.Path() })
	for _, sp := range p.AllPkgs {
		p.typesPkgs[sp.Pkg.Path()] = sp.Pkg
	}
	p.scanGlobals()
	return p, nil
}

// scanGlobals records which package-level variables of the module are written after initialisation.
func (p *Program) scanGlobals() {
	for fn := range ssautil.AllFunctions(p.Prog) {
		if fn.Pkg == nil && fn.Origin() == nil && fn.Parent() == nil {
			continue
		}
		isInit := fn.Name() == "init" || strings.HasPrefix(fn.Name(), "init#")
		for _, b := range fn.Blocks {
			for _, in := range b.Instrs {
				var addr ssa.Value
				switch x := in.(type) {
				case *ssa.Store:
					addr = x.Addr
				case *ssa.Call:
					// address escaping into a call: treat as written (atomic ops, etc.)
					for _, a := range x.Common().Args {
						if g := rootGlobal(a); g != nil && !isInit {
							if _, isPtrArg := a.Type().Underlying().(*types.Pointer); isPtrArg {
								if _, direct := a.(*ssa.Global); direct || true {
									p.storedTo[g] = true
								}
							}
						}
					}
					continue
				default:
					continue
				}
				if g := rootGlobal(addr); g != nil && !isInit {
					p.storedTo[g] = true
				}
			}
		}
	}
}

func rootGlobal(v ssa.Value) *ssa.Global {
	for {
		switch a := v.(type) {
		case *ssa.Global:
			return a
		case *ssa.FieldAddr:
			v = a.X
		case *ssa.IndexAddr:
			v = a.X
		default:
			return nil
		}
	}
}

func (p *Program) isFrozenGlobal(g *ssa.Global) bool {
	if p.storedTo[g] {
		return false
	}
	el := g.Type().(*types.Pointer).Elem()
	switch el.Underlying().(type) {
	case *types.Basic, *types.Interface, *types.Pointer, *types.Signature:
		return true
	}
	return false
}

// frozenConst: symbol for the (immutable) value of a package-level variable. Error sentinels are
// non-nil and pairwise distinct (each comes from its own errors.New / fmt.Errorf call).
func (p *Program) frozenConst(g *Gen, gl *ssa.Global) string {
	el := gl.Type().(*types.Pointer).Elem()
	name := "gv$" + sanitize(gl.Pkg.Pkg.Path()+"."+gl.Name())
	if g.declSet["const:"+name] {
		return name
	}
	g.decl("const:"+name, fmt.Sprintf("(declare-const %s %s)", name, g.sortOf(el)))
	if _, isIface := el.Underlying().(*types.Interface); isIface && types.Implements(el, errorIface()) {
		id := p.globalIndex(gl)
		// distinct payloads make sentinels pairwise different; tag of *errors.errorString-like values is shared
		g.defs = append(g.defs, fmt.Sprintf("(and (not (= (i_tag %s) 0)) (= (i_val %s) (- %d)))", name, name, 1000+id))
	}
	return name
}

func errorIface() *types.Interface {
	return types.Universe.Lookup("error").Type().Underlying().(*types.Interface)
}

func (p *Program) globalIndex(g *ssa.Global) int {
	if id, ok := p.globals[g]; ok {
		return id
	}
	id := len(p.globals) + 1
	p.globals[g] = id
	return id
}

// globalRef: the (negative, distinct) reference of a package-level variable's storage.
func (p *Program) globalRef(g *ssa.Global) string {
	return fmt.Sprintf("(- %d)", p.globalIndex(g))
}

func (p *Program) globalOf(v *types.Var) *ssa.Global {
	if v.Pkg() == nil {
		return nil
	}
	sp := p.Prog.Package(v.Pkg())
	if sp == nil {
		return nil
	}
	if g, ok := sp.Members[v.Name()].(*ssa.Global); ok {
		return g
	}
	return nil
}

func (p *Program) funcID(f *ssa.Function) string {
	id, ok := p.funcIDs[f]
	if !ok {
		id = len(p.funcIDs) + 1
		p.funcIDs[f] = id
	}
	return fmt.Sprintf("(- %d)", 1000000+id)
}

func (p *Program) pkgByName(name string) *types.Package {
	var cands []*types.Package
	for _, tp := range p.typesPkgs {
		if tp.Name() == name {
			cands = append(cands, tp)
		}
	}
	if len(cands) == 0 {
		return nil
	}
	sort.Slice(cands, func(i, j int) bool {
		// prefer module packages, then shorter paths (stdlib)
		mi, mj := strings.HasPrefix(cands[i].Path(), p.ModPath), strings.HasPrefix(cands[j].Path(), p.ModPath)
		if mi != mj {
			return mi
		}
		return len(cands[i].Path()) < len(cands[j].Path())
	})
	return cands[0]
}

func (p *Program) pkgByPath(path string) *types.Package { return p.typesPkgs[path] }

func (p *Program) opaquePointee(t types.Type) bool {
	if _, ok := t.Underlying().(*types.Struct); ok {
		if n, ok := t.(*types.Named); ok && n.Obj().Pkg() != nil && !strings.HasPrefix(n.Obj().Pkg().Path(), p.ModPath) {
			return true
		}
	}
	return false
}

// funcKeyNames: the names under which a contract for fn may be filed.
func funcKeyNames(fn *ssa.Function) (pkgPath string, rel string, full string) {
	o := fn
	if fn.Origin() != nil {
		o = fn.Origin()
	}
	full = o.String()
	var pkg *types.Package
	if o.Pkg != nil {
		pkg = o.Pkg.Pkg
	} else if o.Parent() != nil {
		r := o.Parent()
		for r.Parent() != nil {
			r = r.Parent()
		}
		if r.Pkg != nil {
			pkg = r.Pkg.Pkg
		}
	} else if o.Object() != nil {
		pkg = o.Object().Pkg()
	}
	if pkg != nil {
		pkgPath = pkg.Path()
		rel = o.RelString(pkg)
	} else {
		rel = full
	}
	return
}

func (p *Program) contractFor(fn *ssa.Function) *FuncContract {
	pkgPath, rel, full := funcKeyNames(fn)
	if fc, ok := p.Contracts.Funcs[pkgPath+"::"+rel]; ok {
		return fc
	}
	if fc, ok := p.Contracts.Funcs["::"+full]; ok {
		return fc
	}
	if fc, ok := p.Contracts.Funcs[pkgPath+"::"+full]; ok {
		return fc
	}
	// written in another package's contract file with the short package name:
	// gen.TakeMailboxMessage, (*lib.Buffer).Allocate
	if i := strings.LastIndex(pkgPath, "/"); pkgPath != "" {
		short := pkgPath[i+1:]
		var q string
		switch {
		case strings.HasPrefix(rel, "(*"):
			q = "(*" + short + "." + rel[2:]
		case strings.HasPrefix(rel, "("):
			q = "(" + short + "." + rel[1:]
		default:
			q = short + "." + rel
		}
		if p.qualIndex == nil {
			p.qualIndex = map[string]*FuncContract{}
			var keys []string
			for k := range p.Contracts.Funcs {
				keys = append(keys, k)
			}
			sort.Strings(keys)
			for _, k := range keys {
				fc := p.Contracts.Funcs[k]
				if !fc.Functype {
					if _, dup := p.qualIndex[fc.Name]; !dup {
						p.qualIndex[fc.Name] = fc
					}
				}
			}
		}
		if fc, ok := p.qualIndex[q]; ok && fc.PkgPath != pkgPath {
			return fc
		}
	}
	return nil
}

func (p *Program) ifaceContract(t types.Type, method string) *FuncContract {
	name := types.TypeString(t, func(pk *types.Package) string { return pk.Path() }) + "." + method
	for _, k := range []string{"::" + name} {
		if fc, ok := p.Contracts.Funcs[k]; ok {
			return fc
		}
	}
	if n, ok := t.(*types.Named); ok && n.Obj().Pkg() != nil {
		if fc, ok := p.Contracts.Funcs[n.Obj().Pkg().Path()+"::"+n.Obj().Name()+"."+method]; ok {
			return fc
		}
		// written from another package as pkgname.Iface.Method
		short := n.Obj().Pkg().Name() + "." + n.Obj().Name() + "." + method
		var keys []string
		for k, fc := range p.Contracts.Funcs {
			if fc.Functype && fc.Name == short {
				keys = append(keys, k)
			}
		}
		sort.Strings(keys)
		// a package's own view of the interface wins (ghost counters differ per package)
		for _, k := range keys {
			if p.CurPkgPath != "" && strings.HasPrefix(k, p.CurPkgPath+"::") {
				return p.Contracts.Funcs[k]
			}
		}
		if len(keys) > 0 {
			return p.Contracts.Funcs[keys[0]]
		}
	}
	return nil
}

func (p *Program) functypeContract(t types.Type) *FuncContract {
	if n, ok := t.(*types.Named); ok && n.Obj().Pkg() != nil {
		if fc, ok := p.Contracts.Funcs[n.Obj().Pkg().Path()+"::"+n.Obj().Name()]; ok {
			return fc
		}
		if fc, ok := p.Contracts.Funcs["::"+n.Obj().Pkg().Path()+"."+n.Obj().Name()]; ok {
			return fc
		}
	}
	return nil
}

// autoInline: tiny leaf helpers of the standard library whose bodies are their specification.
var autoInlineSet = map[string]bool{
	"(encoding/binary.bigEndian).Uint16": true, "(encoding/binary.bigEndian).Uint32": true, "(encoding/binary.bigEndian).Uint64": true,
	"(encoding/binary.bigEndian).PutUint16": true, "(encoding/binary.bigEndian).PutUint32": true, "(encoding/binary.bigEndian).PutUint64": true,
	"(encoding/binary.bigEndian).AppendUint16": true, "(encoding/binary.bigEndian).AppendUint32": true, "(encoding/binary.bigEndian).AppendUint64": true,
	"(encoding/binary.littleEndian).Uint16": true, "(encoding/binary.littleEndian).Uint32": true, "(encoding/binary.littleEndian).Uint64": true,
}

func (p *Program) autoInline(fn *ssa.Function) bool {
	return autoInlineSet[fn.String()]
}

// findFunc locates an SSA function by contract key.
func (p *Program) findFunc(fc *FuncContract) *ssa.Function {
	if len(p.funcIndex) == 0 {
		for fn := range ssautil.AllFunctions(p.Prog) {
			if fn.Origin() != nil {
				continue
			}
			pkgPath, rel, full := funcKeyNames(fn)
			p.funcIndex[pkgPath+"::"+rel] = fn
			p.funcIndex["::"+full] = fn
		}
	}
	if fn, ok := p.funcIndex[fc.PkgPath+"::"+fc.Name]; ok {
		return fn
	}
	if fn, ok := p.funcIndex["::"+fc.Name]; ok {
		return fn
	}
	return nil
}

// expandSweeps turns `sweep` directives into (empty, safety-only) contracts for every function of
// the package whose package-relative name matches the pattern and which has no contract of its own.
func (p *Program) expandSweeps() {
	cs := p.Contracts
	for _, sw := range cs.Sweeps {
		sp := p.Pkgs[sw.PkgPath]
		if sp == nil {
			continue
		}
		var names []string
		for fn := range ssautil.AllFunctions(p.Prog) {
			if fn.Origin() != nil || len(fn.Blocks) == 0 {
				continue
			}
			pkgPath, rel, _ := funcKeyNames(fn)
			if pkgPath != sw.PkgPath {
				continue
			}
			if ok, _ := path.Match(sw.Glob, rel); !ok {
				continue
			}
			skip := false
			for _, e := range sw.Except {
				if ok, _ := path.Match(e, rel); ok || e == rel {
					skip = true
				}
			}
			if skip {
				continue
			}
			names = append(names, rel)
		}
		sort.Strings(names)
		for _, rel := range names {
			key := sw.PkgPath + "::" + rel
			if fc, ok := cs.Funcs[key]; ok {
				for _, pr := range sw.Props {
					if !hasProp(fc.Props, pr) {
						fc.Props = append(fc.Props, pr)
					}
				}
				continue
			}
			cs.Funcs[key] = &FuncContract{Name: rel, PkgPath: sw.PkgPath, Props: append([]string{}, sw.Props...), IntMode: sw.IntMode,
				LoopInv: map[int][]Clause{}, LoopDec: map[int]*Clause{}, LoopMod: map[int][]*SX{}, File: sw.File, Line: sw.Line, Swept: true, Requires: sw.Requires}
		}
	}
}

func ssautilAllFunctions(p *Program) map[*ssa.Function]bool {
	return ssautil.AllFunctions(p.Prog)
}
