package main

// Replay of counterexamples on the real code: a per-obligation (or per-unit) driver template
// from /verif/replay is instantiated with the model's values and injected into the package
// with `go test -overlay` (nothing is written to /repo).

import (
	"bytes"
	"context"
	"encoding/json"
	"fmt"
	"math/big"
	"os"
	"os/exec"
	"path/filepath"
	"strings"
	"text/template"
	"time"
)

func runSolverBG(sp solverSpec, dir string, id int, script string, secs int) (string, string, float64) {
	return runSolver(context.Background(), sp, dir, id, script, secs)
}

// smtToGo converts an SMT literal to a Go literal.
func smtToGo(v string) string {
	v = strings.TrimSpace(v)
	switch {
	case strings.HasPrefix(v, "#x"):
		n, _ := new(big.Int).SetString(v[2:], 16)
		return n.String()
	case strings.HasPrefix(v, "#b"):
		n, _ := new(big.Int).SetString(v[2:], 2)
		return n.String()
	case v == "true" || v == "false":
		return v
	case strings.HasPrefix(v, "(- "):
		return "-" + strings.TrimSuffix(strings.TrimPrefix(v, "(- "), ")")
	}
	return v
}

type replayData struct {
	Vals map[string]string
}

// V returns the Go literal of a counterexample value (0 if absent).
func (d replayData) V(name string) string {
	if v, ok := d.Vals[name]; ok {
		return smtToGo(v)
	}
	return "0"
}

// Bytes renders name[0..n) as a Go byte slice literal.
func (d replayData) Bytes(name string, n int) string {
	var sb strings.Builder
	sb.WriteString("[]byte{")
	for i := 0; i < n; i++ {
		if i > 0 {
			sb.WriteString(", ")
		}
		sb.WriteString(d.V(fmt.Sprintf("%s[%d]", name, i)))
	}
	sb.WriteString("}")
	return sb.String()
}

func findDriver(verif string, o *ObligResult) (string, string) {
	cands := []string{sanitize(o.Name)}
	// unit-level driver: strip label components one by one
	name := o.Name
	for k := 0; k < 3; k++ {
		i := strings.LastIndex(name, ".")
		if i <= 0 {
			break
		}
		name = name[:i]
		cands = append(cands, sanitize(name))
	}
	for _, c := range cands {
		matches, _ := filepath.Glob(filepath.Join(verif, "replay", "*", c+".go.tmpl"))
		if len(matches) > 0 {
			return matches[0], filepath.Base(filepath.Dir(matches[0]))
		}
	}
	return "", ""
}

// tryReplay returns true when the counterexample reproduces on the real code.
func tryReplay(verif, root string, o *ObligResult, replayPath string) (bool, map[string]interface{}) {
	detail := map[string]interface{}{}
	tmplPath, pkgDir := findDriver(verif, o)
	if tmplPath == "" {
		detail["status"] = "no replay driver for this obligation"
		return false, detail
	}
	pkgDir = strings.ReplaceAll(pkgDir, "__", "/")
	src, err := os.ReadFile(tmplPath)
	if err != nil {
		detail["status"] = err.Error()
		return false, detail
	}
	t, err := template.New("drv").Parse(string(src))
	if err != nil {
		detail["status"] = "driver template: " + err.Error()
		return false, detail
	}
	var buf bytes.Buffer
	if err := t.Execute(&buf, replayData{Vals: o.Failing.Values}); err != nil {
		detail["status"] = "driver template: " + err.Error()
		return false, detail
	}
	dir, err := os.MkdirTemp(scratchRoot(), "govc-replay-")
	if err != nil {
		detail["status"] = err.Error()
		return false, detail
	}
	defer os.RemoveAll(dir)
	drv := filepath.Join(dir, "zz_govc_replay_test.go")
	os.WriteFile(drv, buf.Bytes(), 0644)
	ov := map[string]map[string]string{"Replace": {filepath.Join(root, pkgDir, "zz_govc_replay_test.go"): drv}}
	ob, _ := json.Marshal(ov)
	ovPath := filepath.Join(dir, "overlay.json")
	os.WriteFile(ovPath, ob, 0644)
	ctx, cancel := context.WithTimeout(context.Background(), 180*time.Second)
	defer cancel()
	cmd := exec.CommandContext(ctx, "go", "test", "-overlay", ovPath, "-vet=off", "-count=1", "-timeout", "60s", "-run", "TestGovcReplay", "./"+pkgDir)
	cmd.Dir = root
	cmd.Env = append(os.Environ(), "GOFLAGS=-mod=mod", "GOPROXY=off", "GOSUMDB=off", "GOTOOLCHAIN=local")
	out, _ := cmd.CombinedOutput()
	detail["driver"] = strings.TrimPrefix(tmplPath, verif+"/")
	detail["command"] = strings.Join(cmd.Args, " ")
	detail["output"] = truncate(string(out), 3000)
	detail["driver_source"] = buf.String()
	if strings.Contains(string(out), "REPRODUCED") {
		detail["status"] = "reproduced on the real code"
		return true, detail
	}
	detail["status"] = "counterexample did not reproduce on the real code"
	return false, detail
}
