package main

// Parser for the contract expression language (Gobra-flavoured Go expressions).
//
//   expr   := ('forall'|'exists') binders '::' expr | iff
//   iff    := impl ('<==>' impl)?
//   impl   := or ('==>' impl)?
//   or     := and ('||' and)*
//   and    := cmp ('&&' cmp)*
//   cmp    := add (('=='|'!='|'<'|'<='|'>'|'>=') add)?
//   add    := mul (('+'|'-'|'|'|'^') mul)*
//   mul    := unary (('*'|'/'|'%'|'<<'|'>>'|'&'|'&^') unary)*
//   unary  := ('!'|'-'|'^'|'*') unary | postfix
//   postfix:= primary ('.' ident | '.' int | '[' expr ']' | '[' lo ':' hi ']' | '(' args ')')*
//   primary:= int | string | char | ident | '(' expr ')' | '(' cond '?' a ':' b ')'

import (
	"fmt"
	"strconv"
	"strings"
	"unicode"
)

type SX struct { // spec expression node
	Op   string // "int","str","id","un","bin","sel","idx","slice","call","quant","ite","old"
	Tok  string // operator / identifier / literal
	Args []*SX
	Bind []Binder // quant
	Pos  int
}

type Binder struct {
	Name string
	Type string // textual Go type
}

func (s *SX) String() string {
	if s == nil {
		return "<nil>"
	}
	switch s.Op {
	case "int", "id", "str":
		return s.Tok
	case "un":
		return s.Tok + s.Args[0].String()
	case "bin":
		return "(" + s.Args[0].String() + " " + s.Tok + " " + s.Args[1].String() + ")"
	case "sel":
		return s.Args[0].String() + "." + s.Tok
	case "idx":
		return s.Args[0].String() + "[" + s.Args[1].String() + "]"
	case "slice":
		return s.Args[0].String() + "[" + s.Args[1].String() + ":" + s.Args[2].String() + "]"
	case "call":
		var a []string
		for _, x := range s.Args[1:] {
			a = append(a, x.String())
		}
		return s.Args[0].String() + "(" + strings.Join(a, ", ") + ")"
	case "quant":
		var b []string
		for _, x := range s.Bind {
			b = append(b, x.Name+" "+x.Type)
		}
		return "(" + s.Tok + " " + strings.Join(b, ", ") + " :: " + s.Args[0].String() + ")"
	case "assert":
		return s.Args[0].String() + ".(" + s.Tok + ")"
	case "lit":
		var a []string
		for _, x := range s.Args {
			a = append(a, x.String())
		}
		return s.Tok + "{" + strings.Join(a, ", ") + "}"
	case "ite":
		return "(" + s.Args[0].String() + " ? " + s.Args[1].String() + " : " + s.Args[2].String() + ")"
	}
	return "?" + s.Op
}

type tok struct {
	kind string // "int","str","id","op","eof"
	s    string
	pos  int
}

func lexSpec(src string) ([]tok, error) {
	var out []tok
	i := 0
	ops := []string{"<==>", "==>", "&&", "||", "==", "!=", "<=", ">=", "<<", ">>", "&^", "::", "+", "-", "*", "/", "%", "&", "|", "^", "<", ">", "!", "(", ")", "[", "]", ".", ",", ":", "?", "{", "}"}
	for i < len(src) {
		c := src[i]
		if c == ' ' || c == '\t' || c == '\n' {
			i++
			continue
		}
		if c >= '0' && c <= '9' {
			j := i
			for j < len(src) && (isAlnum(src[j]) || src[j] == '_') {
				j++
			}
			out = append(out, tok{"int", src[i:j], i})
			i = j
			continue
		}
		if isIdentStart(c) {
			j := i
			for j < len(src) && (isAlnum(src[j]) || src[j] == '_' || src[j] == '$') {
				j++
			}
			out = append(out, tok{"id", src[i:j], i})
			i = j
			continue
		}
		if c == '"' {
			j := i + 1
			for j < len(src) && src[j] != '"' {
				if src[j] == '\\' {
					j++
				}
				j++
			}
			if j >= len(src) {
				return nil, fmt.Errorf("unterminated string at %d", i)
			}
			out = append(out, tok{"str", src[i : j+1], i})
			i = j + 1
			continue
		}
		if c == '\'' {
			j := i + 1
			for j < len(src) && src[j] != '\'' {
				if src[j] == '\\' {
					j++
				}
				j++
			}
			r, _, _, err := strconv.UnquoteChar(src[i+1:j], '\'')
			if err != nil {
				return nil, fmt.Errorf("bad char literal at %d", i)
			}
			out = append(out, tok{"int", strconv.Itoa(int(r)), i})
			i = j + 1
			continue
		}
		matched := false
		for _, o := range ops {
			if strings.HasPrefix(src[i:], o) {
				out = append(out, tok{"op", o, i})
				i += len(o)
				matched = true
				break
			}
		}
		if !matched {
			return nil, fmt.Errorf("unexpected character %q at %d in %q", c, i, src)
		}
	}
	out = append(out, tok{"eof", "", len(src)})
	return out, nil
}

func isAlnum(c byte) bool {
	return c == '_' || unicode.IsLetter(rune(c)) || unicode.IsDigit(rune(c))
}
func isIdentStart(c byte) bool { return c == '_' || unicode.IsLetter(rune(c)) }

type sparser struct {
	toks []tok
	p    int
	src  string
}

func parseSpec(src string) (*SX, error) {
	toks, err := lexSpec(src)
	if err != nil {
		return nil, err
	}
	ps := &sparser{toks: toks, src: src}
	var e *SX
	func() {
		defer func() {
			if r := recover(); r != nil {
				if pe, ok := r.(parseErr); ok {
					err = fmt.Errorf("%s (in %q)", string(pe), src)
					return
				}
				panic(r)
			}
		}()
		e = ps.expr()
		if ps.peek().kind != "eof" {
			ps.fail("unexpected token %q", ps.peek().s)
		}
	}()
	return e, err
}

type parseErr string

func (ps *sparser) fail(f string, a ...interface{}) {
	panic(parseErr(fmt.Sprintf("spec parse error at %d: ", ps.peek().pos) + fmt.Sprintf(f, a...)))
}
func (ps *sparser) peek() tok { return ps.toks[ps.p] }
func (ps *sparser) next() tok { t := ps.toks[ps.p]; ps.p++; return t }
func (ps *sparser) isOp(s string) bool {
	t := ps.peek()
	return t.kind == "op" && t.s == s
}
func (ps *sparser) accept(s string) bool {
	if ps.isOp(s) {
		ps.p++
		return true
	}
	return false
}
func (ps *sparser) expect(s string) {
	if !ps.accept(s) {
		ps.fail("expected %q, got %q", s, ps.peek().s)
	}
}

func (ps *sparser) expr() *SX {
	t := ps.peek()
	if t.kind == "id" && (t.s == "forall" || t.s == "exists") {
		ps.next()
		var bs []Binder
		for {
			// names
			var names []string
			for {
				n := ps.next()
				if n.kind != "id" {
					ps.fail("binder name expected")
				}
				names = append(names, n.s)
				if ps.accept(",") {
					continue
				}
				break
			}
			// the last "name" group is followed by a type: a, b T
			ty := ps.typeText()
			for _, n := range names {
				bs = append(bs, Binder{n, ty})
			}
			if ps.accept(",") {
				continue
			}
			break
		}
		ps.expect("::")
		body := ps.expr()
		return &SX{Op: "quant", Tok: t.s, Bind: bs, Args: []*SX{body}, Pos: t.pos}
	}
	return ps.iff()
}

// typeText reads a Go type: [*] [[]...] ident(.ident)?
func (ps *sparser) typeText() string {
	var sb strings.Builder
	for {
		if ps.accept("*") {
			sb.WriteString("*")
			continue
		}
		if ps.isOp("[") {
			ps.next()
			if ps.peek().kind == "int" {
				sb.WriteString("[" + ps.next().s + "]")
				ps.expect("]")
			} else {
				ps.expect("]")
				sb.WriteString("[]")
			}
			continue
		}
		if pk := ps.peek(); pk.kind == "id" && pk.s == "chan" {
			ps.next()
			sb.WriteString("chan ")
			continue
		}
		break
	}
	n := ps.next()
	if n.kind != "id" {
		ps.fail("type name expected, got %q", n.s)
	}
	sb.WriteString(n.s)
	if ps.isOp(".") {
		ps.next()
		m := ps.next()
		sb.WriteString("." + m.s)
	}
	return sb.String()
}

func (ps *sparser) iff() *SX {
	l := ps.impl()
	if ps.isOp("<==>") {
		t := ps.next()
		r := ps.impl()
		return &SX{Op: "bin", Tok: "<==>", Args: []*SX{l, r}, Pos: t.pos}
	}
	return l
}
func (ps *sparser) impl() *SX {
	l := ps.or()
	if ps.isOp("==>") {
		t := ps.next()
		var r *SX
		if pk := ps.peek(); pk.kind == "id" && (pk.s == "forall" || pk.s == "exists") {
			r = ps.expr()
		} else {
			r = ps.impl()
		}
		return &SX{Op: "bin", Tok: "==>", Args: []*SX{l, r}, Pos: t.pos}
	}
	return l
}
func (ps *sparser) binl(sub func() *SX, ops ...string) *SX {
	l := sub()
	for {
		found := false
		for _, o := range ops {
			if ps.isOp(o) {
				t := ps.next()
				r := sub()
				l = &SX{Op: "bin", Tok: o, Args: []*SX{l, r}, Pos: t.pos}
				found = true
				break
			}
		}
		if !found {
			return l
		}
	}
}
func (ps *sparser) or() *SX  { return ps.binl(ps.and, "||") }
func (ps *sparser) and() *SX { return ps.binl(ps.cmp, "&&") }
func (ps *sparser) cmp() *SX {
	l := ps.add()
	for _, o := range []string{"==", "!=", "<=", ">=", "<", ">"} {
		if ps.isOp(o) {
			t := ps.next()
			r := ps.add()
			return &SX{Op: "bin", Tok: o, Args: []*SX{l, r}, Pos: t.pos}
		}
	}
	return l
}
func (ps *sparser) add() *SX { return ps.binl(ps.mul, "+", "-", "|", "^") }
func (ps *sparser) mul() *SX { return ps.binl(ps.unary, "*", "/", "%", "<<", ">>", "&^", "&") }
func (ps *sparser) unary() *SX {
	for _, o := range []string{"!", "-", "^", "*"} {
		if ps.isOp(o) {
			t := ps.next()
			x := ps.unary()
			return &SX{Op: "un", Tok: o, Args: []*SX{x}, Pos: t.pos}
		}
	}
	return ps.postfix()
}
func (ps *sparser) postfix() *SX {
	x := ps.primary()
	for {
		switch {
		case ps.isOp(".") && ps.toks[ps.p+1].kind == "op" && ps.toks[ps.p+1].s == "(":
			t := ps.next()
			ps.next()
			ty := ps.typeText()
			ps.expect(")")
			x = &SX{Op: "assert", Tok: ty, Args: []*SX{x}, Pos: t.pos}
		case ps.isOp("."):
			t := ps.next()
			n := ps.next()
			if n.kind != "id" && n.kind != "int" {
				ps.fail("selector expected")
			}
			x = &SX{Op: "sel", Tok: n.s, Args: []*SX{x}, Pos: t.pos}
		case ps.isOp("["):
			t := ps.next()
			var lo, hi *SX
			if !ps.isOp(":") {
				lo = ps.expr()
			}
			if ps.accept(":") {
				if !ps.isOp("]") {
					hi = ps.expr()
				}
				ps.expect("]")
				x = &SX{Op: "slice", Args: []*SX{x, lo, hi}, Pos: t.pos}
			} else {
				ps.expect("]")
				x = &SX{Op: "idx", Args: []*SX{x, lo}, Pos: t.pos}
			}
		case ps.isOp("{") && (x.Op == "id" || x.Op == "sel"):
			t := ps.next()
			args := []*SX{}
			if !ps.isOp("}") {
				for {
					args = append(args, ps.expr())
					if !ps.accept(",") {
						break
					}
				}
			}
			ps.expect("}")
			x = &SX{Op: "lit", Tok: x.String(), Args: args, Pos: t.pos}
		case ps.isOp("("):
			t := ps.next()
			args := []*SX{x}
			if !ps.isOp(")") {
				for {
					args = append(args, ps.expr())
					if !ps.accept(",") {
						break
					}
				}
			}
			ps.expect(")")
			x = &SX{Op: "call", Args: args, Pos: t.pos}
		default:
			return x
		}
	}
}
func (ps *sparser) primary() *SX {
	t := ps.next()
	switch t.kind {
	case "int":
		return &SX{Op: "int", Tok: t.s, Pos: t.pos}
	case "str":
		return &SX{Op: "str", Tok: t.s, Pos: t.pos}
	case "id":
		return &SX{Op: "id", Tok: t.s, Pos: t.pos}
	case "op":
		if t.s == "(" {
			// (*T)(x) pointer conversion is not supported; plain parenthesised expr or conditional
			e := ps.expr()
			if ps.accept("?") {
				a := ps.expr()
				ps.expect(":")
				b := ps.expr()
				ps.expect(")")
				return &SX{Op: "ite", Args: []*SX{e, a, b}, Pos: t.pos}
			}
			ps.expect(")")
			return e
		}
		if t.s == "[" {
			// slice/array type conversion like []byte(x)
			ps.p--
			ty := ps.typeText()
			return &SX{Op: "id", Tok: ty, Pos: t.pos}
		}
	}
	ps.p--
	ps.fail("unexpected token %q", t.s)
	return nil
}
