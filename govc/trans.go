package main

// SSA -> verification conditions. One Frame per function activation (top-level unit or inlined
// callee). Blocks are processed in topological order of the CFG with back edges removed; loops
// are cut at their headers (invariant established on entry, preserved on back edges, loop
// targets havocked).

import (
	"fmt"
	"go/constant"
	"go/token"
	"go/types"
	"math/big"
	"os"
	"sort"
	"strings"

	"golang.org/x/tools/go/ssa"
)

type retInfo struct {
	guard   string
	results []*Val
	heap    Heap
}

type deferred struct {
	call  *ssa.Defer
	guard string
}

type Frame struct {
	g         *Gen
	fn        *ssa.Function
	fc        *FuncContract
	prefix    string
	vals      map[ssa.Value]*Val
	reach     map[int]string
	heapOut   map[int]Heap
	edge      map[[2]int]string
	entry     Heap
	depth     int
	rets      []retInfo
	loops     map[int]*loopInfo // by header block index
	loopOrd   map[int]int       // header index -> ordinal (source order, 1-based)
	top       bool
	defers    []*ssa.Defer
	curBlock  *ssa.BasicBlock
	curGuard  string
	safety    bool
	rangeSeen map[ssa.Value]string // Range instr -> heap name of its seen set
	panicOK   bool
	params    map[string]*SVal
	unitName  string
	nOblig    map[string]int
	preVals   map[int]map[string]*SVal // loop header -> variable name -> value on loop entry
	curLoop   int
	protos    []*protoInst
	atomicOrd map[*ssa.CallCommon]int
	curInstr  ssa.Instruction
	private   []privAlloc
	rangeOrd  map[*ssa.CallCommon]int
	guardOf   map[ssa.Value]string // value loaded from a guarded field -> address term of its lock
	frameTargetsCache map[string][]frameTarget
	preHeaps  map[int]Heap // loop header -> heap on loop entry
	lockAtHead map[int][2]string // loop header -> lock-held arrays at the head
	heapOutCur Heap
}

type loopInfo struct {
	header *ssa.BasicBlock
	body   map[int]bool
	backs  []*ssa.BasicBlock
	ord    int
}

func (g *Gen) posOf(fn *ssa.Function, p token.Pos) string {
	if !p.IsValid() {
		p = fn.Pos()
	}
	pos := g.P.Fset.Position(p)
	return fmt.Sprintf("%s:%d", strings.TrimPrefix(pos.Filename, g.P.Root+"/"), pos.Line)
}

func (fr *Frame) oblig(kind, group, label, f, src string, pos token.Pos) {
	if group == "safety" && !fr.safety {
		// no_safety: the condition is not an obligation of this unit, but execution continues past this
		// point only if it held (otherwise the statement panicked)
		// (only type assertions: they carry the typeis() facts contracts rely on; assuming every bounds
		// and nil condition as well made the quantifier instantiation of large units blow up)
		if f != "true" && kind == "typeassert" {
			fr.assume(f, "no_safety: "+src)
		}
		return
	}
	name := fr.unitName + "." + label
	if group == "safety" {
		fr.nOblig[kind]++
		name = fmt.Sprintf("%s.%s#%d", fr.unitName, kind, fr.nOblig[kind])
	}
	if f == "true" {
		// trivially true obligations are still counted (discharged syntactically)
		fr.g.items = append(fr.g.items, Item{Oblig: true, Guard: fr.curGuard, F: "true", Name: name, Group: group, Kind: kind, Pos: fr.g.posOf(fr.fn, pos), Src: src})
		return
	}
	fr.g.items = append(fr.g.items, Item{Oblig: true, Guard: fr.curGuard, F: f, Name: name, Group: group, Kind: kind, Pos: fr.g.posOf(fr.fn, pos), Src: src})
}

func (fr *Frame) assume(f, origin string) {
	if f == "true" {
		return
	}
	fr.g.assume(fr.curGuard, f, origin)
}

// ---------- values ----------

func (fr *Frame) constVal(c *ssa.Const) *Val {
	g := fr.g
	t := c.Type()
	if c.Value == nil {
		// zero value / nil
		if _, ok := t.Underlying().(*types.Pointer); ok {
			return &Val{T: "0", A: &Addr{Base: "0", T: t.Underlying().(*types.Pointer).Elem()}}
		}
		return &Val{T: g.zero(t)}
	}
	if w, _, ok := intInfo(t); ok {
		v, _ := constant.Int64Val(constant.ToInt(c.Value))
		bi := big.NewInt(v)
		if u, ok := constant.Uint64Val(constant.ToInt(c.Value)); ok {
			bi = new(big.Int).SetUint64(u)
		}
		return &Val{T: g.lit(bi, w)}
	}
	switch {
	case isBool(t):
		if constant.BoolVal(c.Value) {
			return &Val{T: "true"}
		}
		return &Val{T: "false"}
	case isString(t):
		return &Val{T: g.strLit(constant.StringVal(c.Value))}
	case isFloat(t):
		f, _ := constant.Float64Val(c.Value)
		srt := g.sortOf(t)
		key := fmt.Sprintf("fconst$%s$%x", sanitize(srt), hashString(fmt.Sprint(f)))
		g.decl("const:"+key, fmt.Sprintf("(declare-const %s %s)", key, srt))
		return &Val{T: key}
	}
	panic(genErr(fmt.Sprintf("unsupported constant %s of type %s", c, t)))
}

func (fr *Frame) val(v ssa.Value) *Val {
	if x, ok := fr.vals[v]; ok {
		return x
	}
	g := fr.g
	switch c := v.(type) {
	case *ssa.Const:
		return fr.constVal(c)
	case *ssa.Global:
		ref := g.P.globalRef(c)
		return &Val{T: ref, A: &Addr{Base: ref, T: c.Type().(*types.Pointer).Elem()}}
	case *ssa.Function:
		id := g.P.funcID(c)
		return &Val{T: id}
	case *ssa.Builtin:
		return &Val{T: "0"}
	case *ssa.FreeVar:
		nv := fr.symbolic("fv$"+c.Name(), c.Type())
		fr.vals[v] = nv
		return nv
	}
	panic(genErr(fmt.Sprintf("%s: use of untranslated value %s (%T) in %s", fr.fn, v.Name(), v, fr.fn.Name())))
}

// symbolic creates an unconstrained value of type t.
func (fr *Frame) symbolic(name string, t types.Type) *Val {
	g := fr.g
	if tup, ok := t.(*types.Tuple); ok {
		r := &Val{}
		for i := 0; i < tup.Len(); i++ {
			r.Tup = append(r.Tup, fr.symbolic(fmt.Sprintf("%s.%d", name, i), tup.At(i).Type()))
		}
		return r
	}
	c := g.fresh(fr.prefix+name, g.sortOf(t))
	return fr.wrap(c, t)
}

// wrap attaches address information for pointer-typed terms and basic type facts.
func (fr *Frame) wrap(term string, t types.Type) *Val {
	if p, ok := t.Underlying().(*types.Pointer); ok {
		return &Val{T: term, A: &Addr{Base: term, T: p.Elem()}}
	}
	return &Val{T: term}
}

func (fr *Frame) typeFacts(term string, t types.Type, h Heap) string {
	// facts every well-typed value satisfies
	switch t.Underlying().(type) {
	case *types.Slice:
		g := fr.g
		z := g.ilit(0)
		return and(g.ile(z, "(s_len "+term+")"), g.ile("(s_len "+term+")", "(s_cap "+term+")"),
			g.ile(z, "(s_off "+term+")"),
			g.ile("(s_cap "+term+")", g.maxLen()), g.ile("(s_off "+term+")", g.maxLen()),
			fmt.Sprintf("(=> (= (s_arr %s) 0) (= (s_cap %s) %s))", term, term, z),
			fmt.Sprintf("(<= (s_arr %s) %s)", term, fr.allocOf(h)), fmt.Sprintf("(>= (s_arr %s) 0)", term))
	case *types.Pointer, *types.Map:
		return fmt.Sprintf("(<= %s %s)", term, fr.allocOf(h))
	case *types.Basic:
		if isString(t) {
			return fr.g.ile(fr.g.ilit(0), "(slen "+term+")")
		}
		return fr.g.rangeFact(term, t)
	}
	return "true"
}

func (fr *Frame) allocOf(h Heap) string {
	if a, ok := h["$alloc"]; ok {
		return a
	}
	fr.g.heapSort["$alloc"] = "Int"
	fr.g.decl("heap:$alloc@0", "(declare-const $alloc@0 Int)")
	fr.g.decl("heap:$alloc@0>0", "(assert (> $alloc@0 0))")
	return "$alloc@0"
}

func (fr *Frame) freshRef(h Heap, name string) (string, Heap) {
	g := fr.g
	cur := fr.allocOf(h)
	r := g.fresh(fr.prefix+name, "Int")
	g.defs = append(g.defs, fmt.Sprintf("(= %s (+ %s 1))", r, cur))
	nh := h.clone()
	nh["$alloc"] = r
	return r, nh
}

// ---------- top level ----------

func newFrame(g *Gen, fn *ssa.Function, fc *FuncContract, prefix string, depth int) *Frame {
	return &Frame{g: g, fn: fn, fc: fc, prefix: prefix, vals: map[ssa.Value]*Val{}, reach: map[int]string{}, heapOut: map[int]Heap{},
		edge: map[[2]int]string{}, depth: depth, loops: map[int]*loopInfo{}, loopOrd: map[int]int{}, rangeSeen: map[ssa.Value]string{},
		params: map[string]*SVal{}, nOblig: map[string]int{}, safety: true}
}

// analyseLoops finds natural loops (back edge t->h with h dominating t).
func (fr *Frame) analyseLoops() {
	fn := fr.fn
	for _, b := range fn.Blocks {
		for _, s := range b.Succs {
			if s.Dominates(b) {
				li := fr.loops[s.Index]
				if li == nil {
					li = &loopInfo{header: s, body: map[int]bool{s.Index: true}}
					fr.loops[s.Index] = li
				}
				li.backs = append(li.backs, b)
				// collect body: nodes reaching b without passing through s
				var stack []*ssa.BasicBlock
				if !li.body[b.Index] {
					li.body[b.Index] = true
					stack = append(stack, b)
				}
				for len(stack) > 0 {
					x := stack[len(stack)-1]
					stack = stack[:len(stack)-1]
					for _, p := range x.Preds {
						if !li.body[p.Index] {
							li.body[p.Index] = true
							stack = append(stack, p)
						}
					}
				}
			}
		}
	}
	// ordinals by source position of the header
	var hs []*loopInfo
	for _, li := range fr.loops {
		hs = append(hs, li)
	}
	sort.Slice(hs, func(i, j int) bool { return fr.blockPos(hs[i].header) < fr.blockPos(hs[j].header) })
	for i, li := range hs {
		li.ord = i + 1
		fr.loopOrd[li.header.Index] = i + 1
	}
}

func (fr *Frame) blockPos(b *ssa.BasicBlock) token.Pos {
	// position of a loop = smallest valid position among the instructions of its header and the
	// comment given by go/ssa ("for.loop", "rangeindex.loop", ...)
	best := token.Pos(1 << 40)
	for _, in := range b.Instrs {
		if p := in.Pos(); p.IsValid() && p < best {
			best = p
		}
	}
	if best == token.Pos(1<<40) {
		for _, s := range b.Succs {
			for _, in := range s.Instrs {
				if p := in.Pos(); p.IsValid() && p < best {
					best = p
				}
			}
		}
	}
	return best
}

func (fr *Frame) topoOrder() []*ssa.BasicBlock {
	fn := fr.fn
	visited := map[int]bool{}
	var post []*ssa.BasicBlock
	var dfs func(b *ssa.BasicBlock)
	dfs = func(b *ssa.BasicBlock) {
		visited[b.Index] = true
		for _, s := range b.Succs {
			if s.Dominates(b) {
				continue // back edge
			}
			if !visited[s.Index] {
				dfs(s)
			}
		}
		post = append(post, b)
	}
	dfs(fn.Blocks[0])
	for i, j := 0, len(post)-1; i < j; i, j = i+1, j-1 {
		post[i], post[j] = post[j], post[i]
	}
	if fn.Recover != nil && !visited[fn.Recover.Index] {
		// recover block: a separate entry, processed after everything else
		main := post
		post = nil
		dfs(fn.Recover)
		for i, j := 0, len(post)-1; i < j; i, j = i+1, j-1 {
			post[i], post[j] = post[j], post[i]
		}
		post = append(main, post...)
	}
	return post
}

// run translates the function body. args are the actual (or symbolic) parameters.
func (fr *Frame) run(args []*Val, entryGuard string, h Heap) {
	fn := fr.fn
	if len(fn.Blocks) == 0 {
		panic(genErr("function without body: " + fn.String()))
	}
	for i, p := range fn.Params {
		fr.vals[p] = args[i]
	}
	fr.entry = h
	fr.analyseLoops()
	order := fr.topoOrder()
	pos := map[int]int{}
	for i, b := range order {
		pos[b.Index] = i
	}
	for _, b := range order {
		fr.block(b, entryGuard, h, pos)
	}
}

func (fr *Frame) block(b *ssa.BasicBlock, entryGuard string, entryHeap Heap, pos map[int]int) {
	g := fr.g
	fr.curBlock = b
	li := fr.loops[b.Index]
	// incoming forward edges
	var edges []string
	var heaps []Heap
	var preds []*ssa.BasicBlock
	for _, p := range b.Preds {
		if li != nil && li.body[p.Index] && b.Dominates(p) {
			continue // back edge
		}
		e, ok := fr.edge[[2]int{p.Index, b.Index}]
		if !ok {
			continue // predecessor unreachable from entry (not visited)
		}
		edges = append(edges, e)
		heaps = append(heaps, fr.heapOut[p.Index])
		preds = append(preds, p)
	}
	var reach string
	var h Heap
	if b.Index == 0 {
		reach = entryGuard
		h = entryHeap.clone()
	} else if fr.fn.Recover == b && len(edges) == 0 {
		// recover entry: reachable from a panic inside the function only if some deferred call
		// can call recover(); the state there is unknown
		if fr.mayRecover() {
			reach = g.fresh(fr.prefix+"recover", "Bool")
		} else {
			reach = "false"
		}
		h = fr.havocAll(entryHeap)
	} else {
		reach = g.define(fr.prefix+fmt.Sprintf("reach%d", b.Index), "Bool", or(edges...))
		h = g.mergeHeaps(edges, heaps)
	}
	fr.reach[b.Index] = reach
	fr.curGuard = reach

	// phis
	phis := []*ssa.Phi{}
	for _, in := range b.Instrs {
		if ph, ok := in.(*ssa.Phi); ok {
			phis = append(phis, ph)
		} else {
			break
		}
	}
	if li != nil {
		// establish invariants on entry edges, with phi := incoming value
		invs := fr.loopInvs(li)
		entryVals := map[*ssa.Phi]*Val{}
		for _, ph := range phis {
			entryVals[ph] = fr.mergePhi(ph, preds, edges, b)
		}
		if fr.preVals == nil {
			fr.preVals = map[int]map[string]*SVal{}
		}
		fr.preVals[b.Index] = map[string]*SVal{}
		if fr.preHeaps == nil {
			fr.preHeaps = map[int]Heap{}
		}
		fr.preHeaps[b.Index] = h
		for _, ph := range phis {
			fr.vals[ph] = entryVals[ph]
			if ph.Comment != "" {
				fr.preVals[b.Index][ph.Comment] = &SVal{V: entryVals[ph], T: ph.Type()}
			}
		}
		for k, c := range invs {
			f := fr.specBool(c.Expr, h, b, c)
			label := c.Label
			if label == "" {
				label = fmt.Sprintf("loop%d.inv%d", li.ord, k+1)
			}
			fr.oblig("invariant", "", label+".establish", f, c.Src, fr.blockPos(b))
		}
		var decEntry string
		_ = decEntry
		// the frame so far is an implicit loop invariant: what the loop havoc forgets about objects
		// outside the modifies clause is re-assumed at the head and re-proved on every back edge
		if fr.frameActive() {
			fr.frameOblig("on loop entry", h, fr.blockPos(b))
		}
		// havoc
		h = fr.havocLoop(li, h)
		if fr.frameActive() {
			_, fs := fr.frameFormulas(h)
			for _, f := range fs {
				fr.assume(f, "frame so far (implicit loop invariant)")
			}
		}
		for _, ph := range phis {
			fr.vals[ph] = fr.symbolic(fmt.Sprintf("phi%s", ph.Name()), ph.Type())
			if f := fr.typeFacts(fr.vals[ph].T, ph.Type(), h); f != "true" {
				fr.assume(f, "type facts of loop variable")
			}
			if os.Getenv("GOVC_DEBUG") != "" {
				fmt.Fprintf(os.Stderr, "loop header %d %q phi %s %v\n", b.Index, b.Comment, ph.Name(), ph.Edges)
			}
			if b.Comment == "rangeindex.loop" && fr.isRangeIndexPhi(ph, b) {
				// the hidden index of a range-over-slice/array/string loop starts at -1 and is only
				// ever incremented by one below the (fixed) length: it never goes below -1
				fr.assume(fr.g.ile(fr.g.ilit(-1), fr.vals[ph].T), "range index >= -1")
			}
		}
		for _, c := range invs {
			f := fr.specBool(c.Expr, h, b, c)
			fr.assume(f, "loop invariant "+c.Src)
		}
	} else {
		for _, ph := range phis {
			fr.vals[ph] = fr.mergePhi(ph, preds, edges, b)
		}
	}

	for _, in := range b.Instrs[len(phis):] {
		h = fr.instr(in, h)
	}
	fr.heapOut[b.Index] = h

	// successors
	last := b.Instrs[len(b.Instrs)-1]
	setEdge := func(s *ssa.BasicBlock, cond string) {
		e := and(reach, cond)
		if s.Dominates(b) && fr.loops[s.Index] != nil && fr.loops[s.Index].body[b.Index] {
			// back edge: preservation
			fr.backEdge(b, s, e, h)
			return
		}
		key := [2]int{b.Index, s.Index}
		if old, dup := fr.edge[key]; dup {
			e = or(old, e)
		}
		fr.edge[key] = g.define(fr.prefix+fmt.Sprintf("edge%d_%d", b.Index, s.Index), "Bool", e)
		if fr.top && g.edgeCovers {
			last := b.Instrs[len(b.Instrs)-1]
			g.items = append(g.items, Item{Oblig: true, Guard: "true", F: fr.edge[key], Name: fmt.Sprintf("%s.edge%d_%d", fr.unitName, b.Index, s.Index), Kind: "cover", Group: "edgecover", Pos: g.posOf(fr.fn, last.Pos())})
		}
	}
	switch t := last.(type) {
	case *ssa.If:
		c := fr.val(t.Cond).T
		setEdge(b.Succs[0], c)
		setEdge(b.Succs[1], not(c))
	case *ssa.Jump:
		setEdge(b.Succs[0], "true")
	}
}

func (fr *Frame) mergePhi(ph *ssa.Phi, preds []*ssa.BasicBlock, edges []string, b *ssa.BasicBlock) *Val {
	g := fr.g
	// ph.Edges is parallel to b.Preds
	var terms []string
	var conds []string
	for i, p := range b.Preds {
		idx := -1
		for j, q := range preds {
			if q == p {
				idx = j
			}
		}
		if idx < 0 {
			continue
		}
		v := fr.val(ph.Edges[i])
		if v.Tup != nil {
			panic(genErr("phi of tuple"))
		}
		t := v.T
		if t == "" && v.A != nil {
			t = g.ptrTerm(v.A)
		}
		terms = append(terms, t)
		conds = append(conds, edges[idx])
	}
	if len(terms) == 0 {
		return fr.symbolic("deadphi", ph.Type())
	}
	t := terms[len(terms)-1]
	for i := len(terms) - 2; i >= 0; i-- {
		t = ite(conds[i], terms[i], t)
	}
	t = g.define(fr.prefix+ph.Name(), g.sortOf(ph.Type()), t)
	return fr.wrap(t, ph.Type())
}

func (fr *Frame) loopInvs(li *loopInfo) []Clause {
	if fr.fc == nil {
		return nil
	}
	return fr.fc.LoopInv[li.ord]
}

func (fr *Frame) backEdge(from, header *ssa.BasicBlock, e string, h Heap) {
	li := fr.loops[header.Index]
	invs := fr.loopInvs(li)
	if la, ok := fr.lockAtHead[header.Index]; ok {
		g := fr.g
		wn, ws := g.lockArr("W")
		rn, rs := g.lockArr("R")
		cw, cr := g.heapArr(h, wn, ws), g.heapArr(h, rn, rs)
		if cw != la[0] || cr != la[1] {
			oldGuard := fr.curGuard
			fr.curGuard = e
			fr.oblig("lock", "locks", "lock_discipline", and(fmt.Sprintf("(= %s %s)", cw, la[0]), fmt.Sprintf("(= %s %s)", cr, la[1])), "a loop iteration leaves every lock as it found it", fr.blockPos(from))
			fr.curGuard = oldGuard
		}
	}
	if fr.frameActive() {
		oldGuard := fr.curGuard
		fr.curGuard = e
		fr.frameOblig("on loop back edge", h, fr.blockPos(from))
		fr.curGuard = oldGuard
	}
	if len(invs) == 0 {
		return
	}
	// evaluate invariants with phis bound to the values flowing along this edge
	saved := map[*ssa.Phi]*Val{}
	predIdx := -1
	for i, p := range header.Preds {
		if p == from {
			predIdx = i
		}
	}
	for _, in := range header.Instrs {
		ph, ok := in.(*ssa.Phi)
		if !ok {
			break
		}
		saved[ph] = fr.vals[ph]
	}
	// compute all first (parallel assignment), then bind
	newVals := map[*ssa.Phi]*Val{}
	for ph := range saved {
		newVals[ph] = fr.val(ph.Edges[predIdx])
	}
	for ph, v := range newVals {
		fr.vals[ph] = v
	}
	oldGuard := fr.curGuard
	fr.curGuard = e
	for k, c := range invs {
		f := fr.specBoolAt(c.Expr, h, header, c, true)
		label := c.Label
		if label == "" {
			label = fmt.Sprintf("loop%d.inv%d", li.ord, k+1)
		}
		fr.oblig("invariant", "", label+".preserve", f, c.Src, fr.blockPos(from))
	}
	fr.curGuard = oldGuard
	for ph, v := range saved {
		fr.vals[ph] = v
	}
}

// finalCell: an escaping local (captured by closures) that is assigned exactly once, by the function
// itself, and never written by any closure that captures it. No callee can change it (it is not
// reachable by name, and every closure that holds its address only reads it).
func finalCell(a *ssa.Alloc) bool {
	stores := 0
	var closureWrites func(fn *ssa.Function, fv *ssa.FreeVar) bool
	closureWrites = func(fn *ssa.Function, fv *ssa.FreeVar) bool {
		for _, ref := range *fv.Referrers() {
			switch x := ref.(type) {
			case *ssa.Store:
				if x.Addr == ssa.Value(fv) {
					return true
				}
			case *ssa.UnOp, *ssa.DebugRef:
			case *ssa.MakeClosure:
				inner := x.Fn.(*ssa.Function)
				for i, b := range x.Bindings {
					if b == ssa.Value(fv) && closureWrites(inner, inner.FreeVars[i]) {
						return true
					}
				}
			default:
				return true // address escapes in some other way
			}
		}
		return false
	}
	for _, ref := range *a.Referrers() {
		switch x := ref.(type) {
		case *ssa.Store:
			if x.Addr == ssa.Value(a) {
				stores++
			} else {
				return false // the address itself is stored somewhere
			}
		case *ssa.UnOp, *ssa.DebugRef:
		case *ssa.MakeClosure:
			inner := x.Fn.(*ssa.Function)
			for i, b := range x.Bindings {
				if b == ssa.Value(a) && closureWrites(inner, inner.FreeVars[i]) {
					return false
				}
			}
		default:
			return false
		}
	}
	return stores <= 1
}

func (fr *Frame) havocAll(h Heap) Heap {
	nh := fr.havocAllRaw(h)
	// non-escaping locals (go/ssa: Alloc with Heap == false) cannot be reached by any callee:
	// their cells keep their contents
	for _, pa := range fr.private {
		a := &Addr{Base: pa.ref, T: pa.t}
		if at, ok := pa.t.Underlying().(*types.Array); ok {
			name, srt := fr.g.elemArrName(at.Elem())
			old := fr.g.heapArr(h, name, srt)
			cur := fr.g.heapArr(nh, name, srt)
			nh[name] = fr.g.define(name, srt, fmt.Sprintf("(store %s %s (select %s %s))", cur, pa.ref, old, pa.ref))
			continue
		}
		nh = fr.g.store(nh, a, fr.g.load(h, a))
	}
	return nh
}

type privAlloc struct {
	ref string
	t   types.Type
}

func (fr *Frame) havocAllRaw(h Heap) Heap {
	g := fr.g
	nh := Heap{}
	// allocation counter only grows
	old := fr.allocOf(h)
	na := g.fresh("$alloc", "Int")
	g.defs = append(g.defs, fmt.Sprintf("(>= %s %s)", na, old))
	nh["$alloc"] = na
	g.nfresh++
	nh["$epoch"] = fmt.Sprintf("h%d", g.nfresh)
	g.epochAlloc[nh["$epoch"]] = na
	return nh
}

// havocLoop havocs what the loop body may write.
func (fr *Frame) havocLoop(li *loopInfo, h Heap) Heap {
	g := fr.g
	type target struct {
		name  string
		bases []string // nil => whole array
		whole bool
	}
	targets := map[string]*target{}
	add := func(name string, base string, whole bool) {
		t := targets[name]
		if t == nil {
			t = &target{name: name}
			targets[name] = t
		}
		if whole || base == "" {
			t.whole = true
		} else {
			t.bases = append(t.bases, base)
		}
	}
	all := false
	inLoop := func(v ssa.Value) bool {
		if in, ok := v.(ssa.Instruction); ok && in.Block() != nil {
			return li.body[in.Block().Index]
		}
		return false
	}
	var idxs []int
	for i := range li.body {
		idxs = append(idxs, i)
	}
	sort.Ints(idxs)
	for _, bi := range idxs {
		for _, in := range fr.fn.Blocks[bi].Instrs {
			switch x := in.(type) {
			case *ssa.Store:
				names, root := fr.staticTargets(x.Addr)
				for _, n := range names {
					if root != nil && !inLoop(root) {
						rv := fr.val(root)
						base := rv.T
						if _, isSlice := root.Type().Underlying().(*types.Slice); isSlice {
							base = fmt.Sprintf("(s_arr %s)", rv.T)
						}
						add(n, base, false)
					} else {
						add(n, "", true)
					}
				}
			case *ssa.MapUpdate:
				for _, n := range fr.mapHeapNames(x.Map.Type()) {
					add(n, "", true)
				}
			case *ssa.Select:
				for _, st := range x.States {
					el := st.Chan.Type().Underlying().(*types.Chan).Elem()
					if st.Dir == types.SendOnly {
						n, _ := g.sndName(el)
						add(n, "", true)
						cn, _ := g.sndCountName()
						add(cn, "", true)
					} else {
						n, _ := g.rcvName(el)
						add(n, "", true)
						rn, _ := g.rcvCountName()
						add(rn, "", true)
					}
				}
			case *ssa.Send:
				n, _ := g.sndName(x.Chan.Type().Underlying().(*types.Chan).Elem())
				add(n, "", true)
				cn, _ := g.sndCountName()
				add(cn, "", true)
			case *ssa.UnOp:
				if x.Op == token.ARROW {
					n, _ := g.rcvName(x.X.Type().Underlying().(*types.Chan).Elem())
					add(n, "", true)
					rn, _ := g.rcvCountName()
					add(rn, "", true)
				}
			case *ssa.Next:
				if r, ok := x.Iter.(*ssa.Range); ok {
					if _, isMap := r.X.Type().Underlying().(*types.Map); isMap {
						add(fr.seenName(r), "", true)
					}
				}
			case ssa.CallInstruction:
				if _, isGo := in.(*ssa.Go); isGo {
					continue
				}
				if _, isDefer := in.(*ssa.Defer); isDefer {
					continue
				}
				names, isAll := fr.callModNames(x)
				if isAll {
					all = true
				}
				for _, n := range names {
					add(n, "", true)
				}
			}
		}
	}
	if fr.fc != nil {
		for range fr.fc.LoopMod[li.ord] {
			all = true // explicit loop modifies: coarse for now
		}
	}
	if all {
		return fr.havocAll(h)
	}
	// lock-held ghosts are not havocked: an iteration must leave every lock as it found it (checked on
	// the back edges), so the state at the head is the state on entry
	wn, _ := g.lockArr("W")
	rn, _ := g.lockArr("R")
	delete(targets, wn)
	delete(targets, rn)
	if fr.lockAtHead == nil {
		fr.lockAtHead = map[int][2]string{}
	}
	fr.lockAtHead[li.header.Index] = [2]string{g.heapArr(h, wn, g.heapSort[wn]), g.heapArr(h, rn, g.heapSort[rn])}
	nh := h.clone()
	// allocation counter grows
	oldAlloc := fr.allocOf(h)
	na := g.fresh("$alloc", "Int")
	g.defs = append(g.defs, fmt.Sprintf("(>= %s %s)", na, oldAlloc))
	var names []string
	for n := range targets {
		names = append(names, n)
	}
	sort.Strings(names)
	for _, n := range names {
		t := targets[n]
		srt, ok := g.heapSort[n]
		if !ok {
			// array not yet materialised: declare through a dummy access is impossible without a sort; skip — it will be
			// declared fresh at first use inside the loop, which is after the havoc point, hence unconstrained w.r.t. the
			// pre-loop state only if nothing read it before. Reads before the loop would have declared it.
			continue
		}
		cur := g.heapArr(h, n, srt)
		if t.whole {
			nh[n] = g.fresh(n, srt)
			g.closureAxiomAt(n, nh[n], srt, na)
			continue
		}
		// pointwise havoc at loop-invariant bases
		elemSort := strings.TrimSuffix(strings.TrimPrefix(srt, "(Array Int "), ")")
		for _, b := range uniq(t.bases) {
			fv := g.fresh(n+"$at", elemSort)
			if !strings.HasPrefix(elemSort, "(Array ") {
				g.closedValue(n, fv, na)
			}
			cur = fmt.Sprintf("(store %s %s %s)", cur, b, fv)
		}
		nh[n] = g.define(n, srt, cur)
	}
	nh["$alloc"] = na
	return nh
}

func uniq(xs []string) []string {
	seen := map[string]bool{}
	var out []string
	for _, x := range xs {
		if !seen[x] {
			seen[x] = true
			out = append(out, x)
		}
	}
	return out
}

// staticTargets: heap array names an address expression may denote, and the root SSA value it is based on.
func (fr *Frame) staticTargets(addr ssa.Value) ([]string, ssa.Value) {
	g := fr.g
	switch a := addr.(type) {
	case *ssa.FieldAddr:
		// walk to the root to find the first selector
		root, first := fr.rootOf(a)
		if first != nil {
			st := first.X.Type().Underlying().(*types.Pointer).Elem()
			if g.isSplitStruct(st) {
				n, s := g.fieldArrName(st, first.Field)
				g.heapSort[n] = s
				return []string{n}, root
			}
		}
		return fr.namesForPointee(root), root
	case *ssa.IndexAddr:
		root, first := fr.rootOf(a)
		if first != nil {
			st := first.X.Type().Underlying().(*types.Pointer).Elem()
			if g.isSplitStruct(st) {
				n, s := g.fieldArrName(st, first.Field)
				g.heapSort[n] = s
				return []string{n}, root
			}
		}
		return fr.namesForPointee(root), root
	}
	return fr.namesForPointee(addr), addr
}

func (fr *Frame) namesForPointee(root ssa.Value) []string {
	g := fr.g
	switch t := root.Type().Underlying().(type) {
	case *types.Slice:
		n, s := g.elemArrName(t.Elem())
		g.heapSort[n] = s
		return []string{n}
	case *types.Pointer:
		el := t.Elem()
		if g.isSplitStruct(el) {
			st := el.Underlying().(*types.Struct)
			var ns []string
			for i := 0; i < st.NumFields(); i++ {
				n, s := g.fieldArrName(el, i)
				g.heapSort[n] = s
				ns = append(ns, n)
			}
			return ns
		}
		if at, ok := el.Underlying().(*types.Array); ok {
			n, s := g.elemArrName(at.Elem())
			g.heapSort[n] = s
			return []string{n}
		}
		n, s := g.cellArrName(el)
		g.heapSort[n] = s
		return []string{n}
	}
	return nil
}

// rootOf walks FieldAddr/IndexAddr chains to the root pointer (or slice) value; first is the
// outermost FieldAddr applied directly to the root when the root is a pointer to struct.
func (fr *Frame) rootOf(v ssa.Value) (ssa.Value, *ssa.FieldAddr) {
	var first *ssa.FieldAddr
	for {
		switch a := v.(type) {
		case *ssa.FieldAddr:
			first = a
			v = a.X
			continue
		case *ssa.IndexAddr:
			if _, isSlice := a.X.Type().Underlying().(*types.Slice); isSlice {
				return a.X, nil
			}
			first = nil
			v = a.X
			continue
		}
		return v, first
	}
}

func (fr *Frame) mapHeapNames(t types.Type) []string {
	mt := t.Underlying().(*types.Map)
	d, v, c := fr.g.mapArrNames(mt)
	return []string{d, v, c}
}

func (g *Gen) mapArrNames(mt *types.Map) (string, string, string) {
	k := sanitize(g.sortOf(mt.Key())) + "$" + sanitize(g.sortOf(mt.Elem()))
	d, v, c := "MD$"+k, "MV$"+k, "MC$"+k
	if rk := refKindOf(mt.Elem()); rk != "" {
		if !(g.intMode && g.sortOf(mt.Key()) == "Int") {
			g.heapRefKind[v] = rk
		}
	}
	g.heapSort[d] = "(Array Int (Array " + g.sortOf(mt.Key()) + " Bool))"
	g.heapSort[v] = "(Array Int (Array " + g.sortOf(mt.Key()) + " " + g.sortOf(mt.Elem()) + "))"
	g.heapSort[c] = "(Array Int " + g.IS() + ")"
	return d, v, c
}

func (fr *Frame) seenName(r *ssa.Range) string {
	if n, ok := fr.rangeSeen[r]; ok {
		return n
	}
	mt := r.X.Type().Underlying().(*types.Map)
	n := fmt.Sprintf("RS$%s%s", fr.prefix, r.Name())
	fr.g.heapSort[n] = "(Array " + fr.g.sortOf(mt.Key()) + " Bool)"
	fr.rangeSeen[r] = n
	return n
}

// mayRecover: does any deferred call of this function (directly) call recover()?
func (fr *Frame) mayRecover() bool {
	for _, b := range fr.fn.Blocks {
		for _, in := range b.Instrs {
			d, ok := in.(*ssa.Defer)
			if !ok {
				continue
			}
			callee := d.Common().StaticCallee()
			if callee == nil {
				return true
			}
			if len(callee.Blocks) == 0 {
				continue
			}
			for _, cb := range callee.Blocks {
				for _, cin := range cb.Instrs {
					if c, ok := cin.(*ssa.Call); ok {
						if bi, ok := c.Common().Value.(*ssa.Builtin); ok && bi.Name() == "recover" {
							return true
						}
					}
				}
			}
		}
	}
	return false
}

// isRangeIndexPhi recognises go/ssa's lowering of the hidden range index: phi [entry: -1, back: phi+1].
func (fr *Frame) isRangeIndexPhi(ph *ssa.Phi, b *ssa.BasicBlock) bool {
	okInit, okInc := false, false
	if b, ok := ph.Type().Underlying().(*types.Basic); !ok || b.Info()&types.IsInteger == 0 {
		return false
	}
	for _, e := range ph.Edges {
		good := false
		switch v := e.(type) {
		case *ssa.Const:
			if v.Value != nil && v.Value.Kind() == constant.Int && v.Int64() == -1 {
				okInit, good = true, true
			}
		case *ssa.BinOp:
			if v.Op == token.ADD && v.X == ssa.Value(ph) {
				if c, ok := v.Y.(*ssa.Const); ok && c.Value != nil && c.Value.Kind() == constant.Int && c.Int64() == 1 {
					okInc, good = true, true
				}
			}
		}
		if !good {
			return false
		}
	}
	return okInit && okInc
}
