#!/usr/bin/env python3
# Regenerates MANIFEST.json from props.json (claimed checks) and properties.jsonl.
import json, subprocess
props=[json.loads(l) for l in open('/verif/properties.jsonl')]
claimed=json.load(open('/verif/props.json'))
hooks=subprocess.run(['git','-C','/repo','log','--format=%h %s'],capture_output=True,text=True).stdout.splitlines()
hook_commits=[l.split()[0] for l in hooks if l.split(' ',1)[1].startswith('verif hook')]
m={"version":1,
 "setup_cmd":"./bin/setup",
 "hooks":{"guard":"verif","enable":"contracts are comment-only files <pkg>/zz_contracts_verif.go with //go:build verif; checks load /repo with -tags verif","baseline_off_cmd":"cd /repo && go test -mod=mod -vet=off -count=1 -timeout 25m ./...","source_commits":hook_commits,"add_only":True},
 "engines":[{"name":"govc","path":"/verif/govc","serves_properties":sorted(claimed.keys()),"kind_free_text":"contract-based deductive verifier for Go written for this task: contracts as //@ comments, VCs generated from go/ssa of /repo's working tree (loops cut at invariants, field-split heap, bit-vector or mathematical integers per function), discharged by z3 5.1.0 / z3 4.8.12 / cvc5 1.0.3"}],
 "checks":[], "not_applicable":[],
 "notes":"See DESIGN.md. Every check is ./bin/check <ID>; evidence/<ID>.json is rewritten on every run; ledger/<ID>.json lists the obligations claimed; known_findings.txt lists recorded findings and repaired defects."}
for p in props:
    i=p['id']
    if i in claimed:
        c=claimed[i]
        m['checks'].append({"property_id":i,"quick_cmd":"./bin/check %s --tier quick"%i,"thorough_cmd":"./bin/check %s --tier thorough"%i,
          "evidence_file":"/verif/evidence/%s.json"%i,"replay_cmd_template":"cat {path}","engine":"govc",
          "level_claimed":{"category":"proof","text":c['text'],"design_ref":c.get('design_ref','DESIGN.md section 4 '+i)},
          "level_note":c['note'],"technique":c.get('technique',"contract-based deductive verification: pre/postconditions and loop invariants on the real Go functions, VCs from go/ssa, discharged by z3/cvc5")})
    else:
        na=json.load(open('/verif/not_applicable.json')).get(i,"not yet claimed: contracts for this property are not written yet (DESIGN.md section 7)")
        m['not_applicable'].append({"property_id":i,"reason":na})
json.dump(m,open('/verif/MANIFEST.json','w'),indent=1)
